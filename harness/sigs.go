package main

// Driver "sigs" (property C03): signed transactions of every route (Ethereum
// legacy / access-list / dynamic-fee, Cosmos SIGN_MODE_DIRECT and amino-JSON,
// EIP-712 through the Web3 extension and through the ethsecp256k1 key) go
// through the REAL ante handler of a real application (built exactly as
// app.setAnteHandler builds it) and, for the history cases, through the real
// DeliverTx of real blocks.
//
// Oracle (the property, computed here, independent of the Coq model): the
// unmodified transaction is accepted on behalf of its signer; no single-field
// mutation, no replay, no signature made for another chain id, no unprotected
// transaction ever executes on behalf of the ORIGINAL account (its sequence does
// not move, its balance does not drop) -- a mutated transaction may well be
// accepted on behalf of the DIFFERENT account its altered signature happens to
// recover to (the driver provokes this by funding that account); every
// (account, nonce) executes at most once over random interleavings.
//
// Multi-message Ethereum transactions (kind "multi"): one Cosmos transaction may
// carry several MsgEthereumTx, each with its own signature.  The driver builds
// such transactions with /repo's own helper (testutil/tx.PrepareEthTx: fee and
// gas = sum over the messages, one ExtensionOptionsEthereumTx) from an explicit
// script -- same sender with nonces n, n+1; the same signed transaction twice;
// two transactions with the same nonce; gaps, reversed and future nonces; two
// senders interleaved; a replayed message beside a fresh one; a message altered
// after signing -- and runs every one through the real ante handler (on a
// discarded branch, for the error class) and through the real DeliverTx of a
// real block.  Observed: the DeliverTx code, every account's sequence before and
// after, how often every signed message executed (its private recipient's
// balance), what the senders paid.  Oracle: a signed transaction (hash) executes
// at most once and only at the then-current sequence of the account its
// signature recovers to; a Cosmos transaction containing a replayed, out-of-order
// or altered message fails as a whole without any effect; an in-order batch is
// accepted and every message of it executes exactly once.
//
// Wrapped submissions (kind "wrapped", same runner, explicit script): a signed
// MsgEthereumTx may be executed only through the Ethereum route, at its signer's
// current nonce.  The script mixes Ethereum-route transactions with Cosmos
// transactions that merely CARRY signed Ethereum messages -- already executed
// ones (the replay), not yet executed ones, future and used nonces -- on every
// other route: inside authz.MsgExec alone, behind one or several plain MsgSend,
// nested 1..3 deep, beside other inner messages at any position, signed by the
// message's own signer or by another account (with or without an authz grant
// stored for it), as plain messages of an ordinary Cosmos transaction,
// SIGN_MODE_DIRECT / amino-JSON / EIP-712 (extension and key) signed, or behind
// the Ethereum extension option without any Cosmos signature.  Every one goes
// through the real ante handler and the real DeliverTx.  Oracle: no carried
// message that was executed before, or whose nonce is not its signer's current
// sequence, is executed (its private recipient's balance does not move), none is
// executed twice, nobody but the wrapper's own signer pays or loses a sequence
// number.  The Coq model refuses every wrapped submission.
//
// Contract creations: the messages of a multi-message transaction may be contract
// creations (init code that deploys, that fails, a constructor that stores), at
// every position, followed by the re-delivery of every message alone and in
// sub-batches; a creation counts as executed when it stands in an accepted
// transaction (cross-checked with the contract account at CreateAddress(sender,
// nonce)); after an accepted transaction with k messages of a sender its
// sequence is n + k (x/evm wrote m + 1 after a successful creation until /repo
// commit f9ff121, so that the later messages of the batch could be delivered
// again).
//
// Account-type operations (kind "accountops"): between submissions a third party
// converts an existing account into a vesting account (x/vesting), grants are
// merged, the account is converted back; then every old signed transaction of
// the account -- Ethereum, Cosmos direct / amino, EIP-712 -- is delivered again.
// Oracle: no sequence ever decreases; a signed transaction executes at most once.
//
// Forged messages (process history as an input): a MsgEthereumTx carries Data and
// two texts anybody can write, Hash and From.  After genuine transactions were
// executed -- or merely checked -- by THIS process (the same application object,
// never re-created within a case), the adversary submits messages built from
// them: Data with the nonce set to the victim's current sequence (or value /
// recipient / gas / payload changed) and the old V, R, S kept, under the Hash
// text of the original, of another earlier transaction of any account, a
// recomputed or random one; Data as signed under a foreign Hash text; From texts
// naming the victim -- alone, inside multi-message envelopes beside genuine
// messages, inside wrappers.  They run at the end of every eth mutation case
// (ValidateBasic + ante handler) and in kind "forged" (explicit script, the
// runner of kind "multi": real ante handler, CheckTx and DeliverTx).  Oracle,
// computed from each message's DATA (the account its V, R, S recover to over
// Data; Data's nonce, recipient, value, cost): nothing executes, no sequence
// moves and nobody pays except through a message whose Data the account signed
// at its then-current sequence, once.  The Coq model records such messages as
// SEthMsg (is the Hash text the hash of Data; is the From text empty) and refuses
// them by its own rule.

import (
	"bytes"
	"crypto/ecdsa"
	"crypto/sha256"
	"encoding/hex"
	"encoding/json"
	"errors"
	"fmt"
	"math/big"
	"sort"
	"strings"
	"time"

	sdkmath "cosmossdk.io/math"
	abci "github.com/cometbft/cometbft/abci/types"
	tmproto "github.com/cometbft/cometbft/proto/tendermint/types"
	"github.com/cosmos/cosmos-sdk/client"
	codectypes "github.com/cosmos/cosmos-sdk/codec/types"
	sdk "github.com/cosmos/cosmos-sdk/types"
	errortypes "github.com/cosmos/cosmos-sdk/types/errors"
	txtypes "github.com/cosmos/cosmos-sdk/types/tx"
	"github.com/cosmos/cosmos-sdk/types/tx/signing"
	authtx "github.com/cosmos/cosmos-sdk/x/auth/tx"
	sdkvesting "github.com/cosmos/cosmos-sdk/x/auth/vesting/types"
	"github.com/cosmos/cosmos-sdk/x/authz"
	banktypes "github.com/cosmos/cosmos-sdk/x/bank/types"
	"github.com/ethereum/go-ethereum/common"
	ethtypes "github.com/ethereum/go-ethereum/core/types"
	"github.com/ethereum/go-ethereum/crypto"

	"github.com/haqq-network/haqq/app"
	"github.com/haqq-network/haqq/app/ante"
	ethante "github.com/haqq-network/haqq/app/ante/evm"
	"github.com/haqq-network/haqq/crypto/ethsecp256k1"
	"github.com/haqq-network/haqq/encoding"
	"github.com/haqq-network/haqq/testutil"
	utiltx "github.com/haqq-network/haqq/testutil/tx"
	haqqtypes "github.com/haqq-network/haqq/types"
	"github.com/haqq-network/haqq/utils"
	evmtypes "github.com/haqq-network/haqq/x/evm/types"
	vestingtypes "github.com/haqq-network/haqq/x/vesting/types"
)

func init() { register("sigs", sigsDriver) }

const (
	sgOtherChain   = utils.TestEdge2ChainID + "-3" // haqq_54211-3
	sgOtherEIP155  = 54211
	sgThisEIP155   = 11235
	sgRichBalance  = "1000000000000000000000000" // 10^24 aISLM
	sgCosmosGas    = 300000
	sgTransferUnit = 1000
)

var sgRoutes = []string{"eth-legacy", "eth-accesslist", "eth-dynamicfee", "cosmos-direct", "cosmos-amino", "eip712-ext", "eip712-key"}

// ---------------------------------------------------------------- environment
type sgWorld struct {
	App     *app.Haqq
	Ante    sdk.AnteHandler
	TxCfg   client.TxConfig
	Signer  ethtypes.Signer
	ZeroFee bool // the case runs in the zero-fee regime: every transaction offers gas price 0
}

// sgAnte builds the ante handler the way app.setAnteHandler does.
func sgAnte(a *app.Haqq, txCfg client.TxConfig) sdk.AnteHandler {
	options := ante.HandlerOptions{
		Cdc:                    a.AppCodec(),
		AccountKeeper:          a.AccountKeeper,
		BankKeeper:             a.BankKeeper,
		ExtensionOptionChecker: haqqtypes.HasDynamicFeeExtensionOption,
		EvmKeeper:              a.EvmKeeper,
		StakingKeeper:          a.StakingKeeper,
		FeegrantKeeper:         a.FeeGrantKeeper,
		DistributionKeeper:     a.DistrKeeper,
		IBCKeeper:              a.IBCKeeper,
		FeeMarketKeeper:        a.FeeMarketKeeper,
		SignModeHandler:        txCfg.SignModeHandler(),
		SigGasConsumer:         ante.SigVerificationGasConsumer,
		MaxTxGasWanted:         0,
		TxFeeChecker:           ethante.NewDynamicFeeChecker(a.EvmKeeper),
	}
	if err := options.Validate(); err != nil {
		panic(err)
	}
	return app.NewHaqqAnteHandlerDecorator(*a.StakingKeeper.Keeper, ante.NewAnteHandler(options))
}

var sgBaseWorld *sgWorld

func sgWorldOf(e *Env) *sgWorld {
	if sgBaseWorld != nil && sgBaseWorld.App == e.App {
		return sgBaseWorld
	}
	txCfg := encoding.MakeConfig(app.ModuleBasics).TxConfig
	w := &sgWorld{App: e.App, TxCfg: txCfg, Ante: sgAnte(e.App, txCfg), Signer: ethtypes.LatestSignerForChainID(big.NewInt(sgThisEIP155))}
	if baseEnv != nil && e.App == baseEnv.App {
		sgBaseWorld = w
	}
	return w
}

type sgAcct struct {
	Key  *ecdsa.PrivateKey
	Priv *ethsecp256k1.PrivKey
	Addr common.Address
	Acc  sdk.AccAddress
}

func sgNewAcct(r *Rng) *sgAcct {
	for {
		kb := r.Bytes(32)
		k, err := crypto.ToECDSA(kb)
		if err != nil {
			continue
		}
		addr := crypto.PubkeyToAddress(k.PublicKey)
		return &sgAcct{Key: k, Priv: &ethsecp256k1.PrivKey{Key: crypto.FromECDSA(k)}, Addr: addr, Acc: sdk.AccAddress(addr.Bytes())}
	}
}

func sgRich() sdk.Coins {
	v, _ := sdkmath.NewIntFromString(sgRichBalance)
	return sdk.NewCoins(sdk.NewCoin(utils.BaseDenom, v))
}

// sgInstall creates the account with the given sequence and funds it.
func sgInstall(ctx sdk.Context, a *app.Haqq, addr sdk.AccAddress, seq uint64, fund bool) {
	acc := a.AccountKeeper.GetAccount(ctx, addr)
	if acc == nil {
		acc = a.AccountKeeper.NewAccountWithAddress(ctx, addr)
	}
	if err := acc.SetSequence(seq); err != nil {
		panic(err)
	}
	a.AccountKeeper.SetAccount(ctx, acc)
	if fund {
		if err := testutil.FundAccount(ctx, a.BankKeeper, addr, sgRich()); err != nil {
			panic(err)
		}
	}
}

func sgSeq(ctx sdk.Context, a *app.Haqq, addr sdk.AccAddress) uint64 {
	acc := a.AccountKeeper.GetAccount(ctx, addr)
	if acc == nil {
		return 0
	}
	return acc.GetSequence()
}

func sgAccNum(ctx sdk.Context, a *app.Haqq, addr sdk.AccAddress) uint64 {
	acc := a.AccountKeeper.GetAccount(ctx, addr)
	if acc == nil {
		return 0
	}
	return acc.GetAccountNumber()
}

func sgBal(ctx sdk.Context, a *app.Haqq, addr sdk.AccAddress) *big.Int {
	return a.BankKeeper.GetBalance(ctx, addr, utils.BaseDenom).Amount.BigInt()
}

// ---------------------------------------------------------------- error classes
// sgErrClass maps an ante error to a small enum and says whether the check that
// failed is one the Coq model contains (protection, chain id, signature,
// sequence) or one it treats as an arbitrary "other check" (fees, funds, gas,
// message and envelope validity, ...).
func sgErrClass(err error) (string, bool) {
	switch {
	case err == nil:
		return "ok", true
	// the two checks on the self-reported fields of a MsgEthereumTx (MsgEthereumTx.ValidateBasic: the Hash text must
	// be the hash of the converted Data; EthValidateBasicDecorator: the From text must be empty): part of the model
	// ([claims_ok]) for messages recorded as SEthMsg
	case strings.Contains(err.Error(), "invalid tx hash"):
		return "hash-field", true
	case strings.Contains(err.Error(), "invalid From"):
		return "from-field", true
	case errors.Is(err, errortypes.ErrNotSupported):
		return "unprotected-or-unsupported", true
	case errors.Is(err, errortypes.ErrorInvalidSigner):
		return "invalid-signer", true
	case errors.Is(err, errortypes.ErrInvalidSequence), errors.Is(err, errortypes.ErrWrongSequence):
		return "sequence", true
	case errors.Is(err, errortypes.ErrUnauthorized):
		return "signature-verification", true
	case errors.Is(err, errortypes.ErrInvalidChainID):
		return "chain-id", true
	case errors.Is(err, errortypes.ErrInvalidPubKey):
		return "pubkey", true
	case errors.Is(err, errortypes.ErrTooManySignatures), errors.Is(err, errortypes.ErrNoSignatures):
		return "signature-count", true
	case errors.Is(err, errortypes.ErrUnknownExtensionOptions):
		return "extension", true
	}
	var se interface {
		Codespace() string
		ABCICode() uint32
	}
	if errors.As(err, &se) {
		return fmt.Sprintf("other:%s/%d", se.Codespace(), se.ABCICode()), false
	}
	return "other", false
}

// sgRunAnte decodes the bytes like baseapp does and runs the ante handler.
func (w *sgWorld) sgRunAnte(ctx sdk.Context, bz []byte) (err error) {
	defer func() {
		if r := recover(); r != nil {
			err = fmt.Errorf("panic in ante handler: %v", r)
		}
	}()
	tx, derr := w.TxCfg.TxDecoder()(bz)
	if derr != nil {
		return fmt.Errorf("tx decode: %w", derr)
	}
	for _, m := range tx.GetMsgs() { // baseapp.validateBasicTxMsgs
		if verr := m.ValidateBasic(); verr != nil {
			return verr
		}
	}
	// baseapp.runTx: the ante handler works on a branch of the state that is written back only on success
	cctx, write := ctx.CacheContext()
	_, err = w.Ante(cctx.WithTxBytes(bz).WithBlockGasMeter(sdk.NewGasMeter(1_000_000_000_000)), tx, false)
	if err == nil {
		write()
	}
	return err
}

// ---------------------------------------------------------------- Ethereum transactions
type sgEthFields struct {
	Type     int
	ChainID  *big.Int
	Nonce    uint64
	GasPrice *big.Int
	Tip      *big.Int
	FeeCap   *big.Int
	Gas      uint64
	To       *common.Address
	Value    *big.Int
	Data     []byte
	Access   ethtypes.AccessList
	V, R, S  *big.Int
}

func sgFieldsOf(tx *ethtypes.Transaction) sgEthFields {
	v, r, s := tx.RawSignatureValues()
	f := sgEthFields{Type: int(tx.Type()), ChainID: tx.ChainId(), Nonce: tx.Nonce(), GasPrice: tx.GasPrice(), Tip: tx.GasTipCap(), FeeCap: tx.GasFeeCap(),
		Gas: tx.Gas(), To: tx.To(), Value: tx.Value(), Data: append([]byte{}, tx.Data()...), V: new(big.Int).Set(v), R: new(big.Int).Set(r), S: new(big.Int).Set(s)}
	for _, t := range tx.AccessList() {
		f.Access = append(f.Access, ethtypes.AccessTuple{Address: t.Address, StorageKeys: append([]common.Hash{}, t.StorageKeys...)})
	}
	return f
}

func (f sgEthFields) build() *ethtypes.Transaction {
	switch f.Type {
	case 0:
		return ethtypes.NewTx(&ethtypes.LegacyTx{Nonce: f.Nonce, GasPrice: f.GasPrice, Gas: f.Gas, To: f.To, Value: f.Value, Data: f.Data, V: f.V, R: f.R, S: f.S})
	case 1:
		return ethtypes.NewTx(&ethtypes.AccessListTx{ChainID: f.ChainID, Nonce: f.Nonce, GasPrice: f.GasPrice, Gas: f.Gas, To: f.To, Value: f.Value, Data: f.Data, AccessList: f.Access, V: f.V, R: f.R, S: f.S})
	default:
		return ethtypes.NewTx(&ethtypes.DynamicFeeTx{ChainID: f.ChainID, Nonce: f.Nonce, GasTipCap: f.Tip, GasFeeCap: f.FeeCap, Gas: f.Gas, To: f.To, Value: f.Value, Data: f.Data, AccessList: f.Access, V: f.V, R: f.R, S: f.S})
	}
}

// sgEthBytes wraps an Ethereum transaction into the Cosmos envelope and encodes it.
func (w *sgWorld) sgEthBytes(tx *ethtypes.Transaction, envelope func(b authtx.ExtensionOptionsTxBuilder, msg *evmtypes.MsgEthereumTx)) ([]byte, error) {
	msg := &evmtypes.MsgEthereumTx{}
	if err := msg.FromEthereumTx(tx); err != nil {
		return nil, err
	}
	b := w.TxCfg.NewTxBuilder()
	if _, err := msg.BuildTx(b, utils.BaseDenom); err != nil {
		return nil, err
	}
	if envelope != nil {
		envelope(b.(authtx.ExtensionOptionsTxBuilder), msg)
	}
	return w.TxCfg.TxEncoder()(b.GetTx())
}

var secp256k1N, _ = new(big.Int).SetString("fffffffffffffffffffffffffffffffebaaedce6af48a03bbfd25e8cd0364141", 16)

type sgMutant struct {
	Name string
	Tx   *ethtypes.Transaction
	Env  func(b authtx.ExtensionOptionsTxBuilder, msg *evmtypes.MsgEthereumTx)
	// SameContent: the mutation does not touch what the signature covers (signature
	// malleability): acceptance on behalf of the signer is recorded, not judged.
	SameContent bool
	// ClaimHash / ClaimFrom: the self-reported Hash ("" = the hash of Data, as FromEthereumTx writes it) and From
	// texts of the message
	ClaimHash, ClaimFrom string
}

func sgEthMutants(r *Rng, tx *ethtypes.Transaction, other common.Address) []sgMutant {
	out := []sgMutant{}
	add := func(name string, f func(*sgEthFields)) {
		x := sgFieldsOf(tx)
		f(&x)
		out = append(out, sgMutant{Name: name, Tx: x.build()})
	}
	one := big.NewInt(1)
	add("nonce+1", func(f *sgEthFields) { f.Nonce++ })
	if tx.Nonce() > 0 {
		add("nonce-1", func(f *sgEthFields) { f.Nonce-- })
	}
	if tx.Type() == 2 {
		add("tip+1", func(f *sgEthFields) { f.Tip = new(big.Int).Add(f.Tip, one) })
		add("feecap+1", func(f *sgEthFields) { f.FeeCap = new(big.Int).Add(f.FeeCap, one) })
	} else {
		add("gasprice+1", func(f *sgEthFields) { f.GasPrice = new(big.Int).Add(f.GasPrice, one) })
	}
	add("gas+1", func(f *sgEthFields) { f.Gas++ })
	if tx.To() != nil {
		add("to-byteflip", func(f *sgEthFields) { a := *f.To; a[r.Intn(20)] ^= byte(1 << uint(r.Intn(8))); f.To = &a })
		add("to-other", func(f *sgEthFields) { a := other; f.To = &a })
	} else {
		add("to-set", func(f *sgEthFields) { a := other; f.To = &a })
	}
	add("value+1", func(f *sgEthFields) { f.Value = new(big.Int).Add(f.Value, one) })
	if len(tx.Data()) > 0 {
		add("data-bitflip", func(f *sgEthFields) { f.Data[r.Intn(len(f.Data))] ^= byte(1 << uint(r.Intn(8))) })
		add("data-truncate", func(f *sgEthFields) { f.Data = f.Data[:len(f.Data)-1] })
	}
	add("data-append", func(f *sgEthFields) { f.Data = append(f.Data, 0) })
	if tx.Type() != 0 {
		add("access-add", func(f *sgEthFields) { f.Access = append(f.Access, ethtypes.AccessTuple{Address: other}) })
		if len(tx.AccessList()) > 0 {
			add("access-drop", func(f *sgEthFields) { f.Access = f.Access[1:] })
			add("access-addr-flip", func(f *sgEthFields) { f.Access[0].Address[r.Intn(20)] ^= 1 })
			for i, t := range tx.AccessList() {
				if len(t.StorageKeys) > 0 {
					i := i
					add("access-key-flip", func(f *sgEthFields) { f.Access[i].StorageKeys[0][r.Intn(32)] ^= 1 })
					add("access-key-drop", func(f *sgEthFields) { f.Access[i].StorageKeys = f.Access[i].StorageKeys[1:] })
					break
				}
			}
		}
		add("chainid-field-54211", func(f *sgEthFields) { f.ChainID = big.NewInt(sgOtherEIP155) })
		add("chainid-field+1", func(f *sgEthFields) { f.ChainID = new(big.Int).Add(f.ChainID, one) })
		add("v-flip", func(f *sgEthFields) { f.V = new(big.Int).Xor(f.V, one) })
	} else {
		// legacy: the chain id lives in V = parity + 35 + 2*chainid
		add("v-chainid-54211", func(f *sgEthFields) {
			par := new(big.Int).Sub(f.V, big.NewInt(35+2*sgThisEIP155))
			f.V = new(big.Int).Add(par, big.NewInt(35+2*sgOtherEIP155))
		})
		add("v-parity-flip", func(f *sgEthFields) {
			par := new(big.Int).Sub(f.V, big.NewInt(35+2*sgThisEIP155))
			f.V = new(big.Int).Add(new(big.Int).Xor(par, one), big.NewInt(35+2*sgThisEIP155))
		})
		add("v-to-27", func(f *sgEthFields) { // strip the replay protection, keep r and s
			par := new(big.Int).Sub(f.V, big.NewInt(35+2*sgThisEIP155))
			f.V = new(big.Int).Add(par, big.NewInt(27))
		})
	}
	add("r+1", func(f *sgEthFields) { f.R = new(big.Int).Add(f.R, one) })
	add("s+1", func(f *sgEthFields) { f.S = new(big.Int).Add(f.S, one) })
	add("r-s-swapped", func(f *sgEthFields) { f.R, f.S = f.S, f.R })
	// signature malleability: (r, n-s, parity^1) signs the same content
	x := sgFieldsOf(tx)
	x.S = new(big.Int).Sub(secp256k1N, x.S)
	if tx.Type() == 0 {
		par := new(big.Int).Sub(x.V, big.NewInt(35+2*sgThisEIP155))
		x.V = new(big.Int).Add(new(big.Int).Xor(par, one), big.NewInt(35+2*sgThisEIP155))
	} else {
		x.V = new(big.Int).Xor(x.V, one)
	}
	out = append(out, sgMutant{Name: "s-malleated", Tx: x.build(), SameContent: true})
	// type change: the same fields presented as another transaction type
	if tx.Type() == 1 {
		add("type-1-to-2", func(f *sgEthFields) { f.Type = 2; f.Tip, f.FeeCap = f.GasPrice, f.GasPrice })
	}
	if tx.Type() == 2 {
		add("type-2-to-1", func(f *sgEthFields) { f.Type = 1; f.GasPrice = f.FeeCap })
	}
	// the Cosmos envelope around an Ethereum message must stay canonical
	env := func(name string, f func(b authtx.ExtensionOptionsTxBuilder, msg *evmtypes.MsgEthereumTx)) {
		out = append(out, sgMutant{Name: name, Tx: tx, Env: f})
	}
	env("env-memo", func(b authtx.ExtensionOptionsTxBuilder, _ *evmtypes.MsgEthereumTx) { b.SetMemo("x") })
	env("env-timeout-height", func(b authtx.ExtensionOptionsTxBuilder, _ *evmtypes.MsgEthereumTx) { b.SetTimeoutHeight(1000) })
	env("env-fee+1", func(b authtx.ExtensionOptionsTxBuilder, _ *evmtypes.MsgEthereumTx) {
		fee := new(big.Int).Mul(tx.GasPrice(), new(big.Int).SetUint64(tx.Gas()))
		b.SetFeeAmount(sdk.NewCoins(sdk.NewCoin(utils.BaseDenom, sdkmath.NewIntFromBigInt(fee.Add(fee, one)))))
	})
	if tx.GasPrice().Sign() != 0 { // with gas price 0 the empty fee IS the canonical fee of the envelope: not a mutant
		env("env-fee-zero", func(b authtx.ExtensionOptionsTxBuilder, _ *evmtypes.MsgEthereumTx) { b.SetFeeAmount(sdk.Coins{}) })
	}
	env("env-gas+1", func(b authtx.ExtensionOptionsTxBuilder, _ *evmtypes.MsgEthereumTx) { b.SetGasLimit(tx.Gas() + 1) })
	env("env-fee-payer", func(b authtx.ExtensionOptionsTxBuilder, _ *evmtypes.MsgEthereumTx) {
		b.SetFeePayer(sdk.AccAddress(other.Bytes()))
	})
	env("env-fee-granter", func(b authtx.ExtensionOptionsTxBuilder, _ *evmtypes.MsgEthereumTx) {
		b.SetFeeGranter(sdk.AccAddress(other.Bytes()))
	})
	out = append(out, sgMutant{Name: "env-from-set", Tx: tx, ClaimFrom: other.Hex()})
	out = append(out, sgMutant{Name: "env-hash-field", Tx: tx, ClaimHash: common.BytesToHash(r.Bytes(32)).Hex()})
	env("env-second-extension", func(b authtx.ExtensionOptionsTxBuilder, _ *evmtypes.MsgEthereumTx) {
		o, _ := codectypes.NewAnyWithValue(&evmtypes.ExtensionOptionsEthereumTx{})
		b.SetExtensionOptions(o, o)
	})
	return out
}

// ---------------------------------------------------------------- Cosmos transactions
// sgBodyID identifies everything of a Cosmos transaction that a signature
// covers except chain id, account number and sequence: body (messages, memo,
// timeout height; extension options left out: the Web3 extension carries the
// signature itself), fee, gas, payer/granter, signer public keys and modes.
func sgBodyID(tx sdk.Tx) string {
	p, ok := tx.(interface{ GetProtoTx() *txtypes.Tx })
	if !ok {
		return "?"
	}
	pt := p.GetProtoTx()
	body := *pt.Body
	body.ExtensionOptions = nil
	ai := *pt.AuthInfo
	ai.SignerInfos = nil
	for _, si := range pt.AuthInfo.SignerInfos {
		c := *si
		c.Sequence = 0
		ai.SignerInfos = append(ai.SignerInfos, &c)
	}
	bb, _ := body.Marshal()
	ab, _ := ai.Marshal()
	h := sha256.Sum256(append(append(bb, 0xff), ab...))
	return hex.EncodeToString(h[:8])
}

type sgSignedDoc struct {
	Chain  string
	AccNum uint64
	Seq    uint64
	BodyID string
}

// sgSignCosmos signs msgs for account a with the given (chain id, account
// number, sequence): the real signing helpers of /repo/testutil/tx are run on
// a scratch branch of the state in which the account has exactly these values.
func (w *sgWorld) sgSignCosmos(ctx sdk.Context, route string, a *sgAcct, chain string, accNum, seq uint64, msgs []sdk.Msg, gasPrice *big.Int) ([]byte, sgSignedDoc, error) {
	return w.sgSignCosmosDomain(ctx, route, a, chain, chain, accNum, seq, msgs, gasPrice)
}

// sgSignCosmosDomain: as sgSignCosmos; for the EIP-712 routes [domain] is the chain
// id whose EIP-155 number goes into the typed-data domain (and the Web3
// extension), which may differ from the chain id inside the sign doc.
func (w *sgWorld) sgSignCosmosDomain(ctx sdk.Context, route string, a *sgAcct, chain, domain string, accNum, seq uint64, msgs []sdk.Msg, gasPrice *big.Int) ([]byte, sgSignedDoc, error) {
	return w.sgSignCosmosGas(ctx, route, a, chain, domain, accNum, seq, msgs, gasPrice, sgCosmosGas)
}

// sgSignCosmosGas: as sgSignCosmosDomain, with an explicit gas limit (the fee is gas * price); a panic of
// the signing helpers (a message the sign mode cannot render) is returned as an error.
func (w *sgWorld) sgSignCosmosGas(ctx sdk.Context, route string, a *sgAcct, chain, domain string, accNum, seq uint64, msgs []sdk.Msg, gasPrice *big.Int, gas uint64) (bz []byte, doc sgSignedDoc, err error) {
	defer func() {
		if r := recover(); r != nil {
			bz, doc, err = nil, sgSignedDoc{}, fmt.Errorf("panic while signing: %v", r)
		}
	}()
	sctx, _ := ctx.CacheContext()
	sctx = sctx.WithChainID(chain)
	acc := w.App.AccountKeeper.GetAccount(sctx, a.Acc)
	if acc == nil {
		return nil, sgSignedDoc{}, fmt.Errorf("no account")
	}
	_ = acc.SetSequence(seq)
	_ = acc.SetAccountNumber(accNum)
	w.App.AccountKeeper.SetAccount(sctx, acc)
	fees := sdk.NewCoins(sdk.NewCoin(utils.BaseDenom, sdkmath.NewIntFromBigInt(new(big.Int).Mul(gasPrice, new(big.Int).SetUint64(gas)))))
	args := utiltx.CosmosTxArgs{TxCfg: w.TxCfg, Priv: a.Priv, ChainID: domain, Gas: gas, Fees: fees, Msgs: msgs}
	var tx sdk.Tx
	switch route {
	case "cosmos-direct", "cosmos-amino":
		gp := sdkmath.NewIntFromBigInt(gasPrice)
		args.GasPrice = &gp
		mode := signing.SignMode_SIGN_MODE_DIRECT
		if route == "cosmos-amino" {
			mode = signing.SignMode_SIGN_MODE_LEGACY_AMINO_JSON
		}
		tx, err = utiltx.PrepareCosmosTx(sctx, w.App, args, mode)
	case "eip712-ext":
		tx, err = utiltx.CreateEIP712CosmosTx(sctx, w.App, utiltx.EIP712TxArgs{CosmosTxArgs: args, UseLegacyExtension: true, UseLegacyTypedData: true})
	case "eip712-key":
		tx, err = utiltx.CreateEIP712CosmosTx(sctx, w.App, utiltx.EIP712TxArgs{CosmosTxArgs: args, UseLegacyExtension: false, UseLegacyTypedData: false})
	default:
		err = fmt.Errorf("route %s", route)
	}
	if err != nil {
		return nil, sgSignedDoc{}, err
	}
	bz, err = w.TxCfg.TxEncoder()(tx)
	if err != nil {
		return nil, sgSignedDoc{}, err
	}
	dec, err := w.TxCfg.TxDecoder()(bz)
	if err != nil {
		return nil, sgSignedDoc{}, err
	}
	return bz, sgSignedDoc{Chain: chain, AccNum: accNum, Seq: seq, BodyID: sgBodyID(dec)}, nil
}

type sgCosmosMutant struct {
	Name          string
	Bytes         []byte
	SigIntact     bool // the signature bytes are the original ones
	ExtChain      uint64
	PayerIsSigner bool
}

// sgCosmosMutate decodes the signed bytes, lets f edit the builder, re-encodes.
func (w *sgWorld) sgCosmosMutate(orig []byte, f func(b client.TxBuilder, tx sdk.Tx) error) ([]byte, error) {
	tx, err := w.TxCfg.TxDecoder()(orig)
	if err != nil {
		return nil, err
	}
	b, err := w.TxCfg.WrapTxBuilder(tx)
	if err != nil {
		return nil, err
	}
	if err := f(b, tx); err != nil {
		return nil, err
	}
	return w.TxCfg.TxEncoder()(b.GetTx())
}

func sgWeb3Ext(tx sdk.Tx) *haqqtypes.ExtensionOptionsWeb3Tx {
	if x, ok := tx.(interface{ GetExtensionOptions() []*codectypes.Any }); ok {
		for _, o := range x.GetExtensionOptions() {
			if e, ok := o.GetCachedValue().(*haqqtypes.ExtensionOptionsWeb3Tx); ok {
				return e
			}
		}
	}
	return nil
}

func (w *sgWorld) sgCosmosMutants(r *Rng, route string, orig []byte, a, b *sgAcct) []sgCosmosMutant {
	out := []sgCosmosMutant{}
	add := func(name string, intact bool, f func(bd client.TxBuilder, tx sdk.Tx) error) {
		bz, err := w.sgCosmosMutate(orig, f)
		if err != nil {
			return
		}
		out = append(out, sgCosmosMutant{Name: name, Bytes: bz, SigIntact: intact})
	}
	add("msg-amount+1", true, func(bd client.TxBuilder, tx sdk.Tx) error {
		m := *(tx.GetMsgs()[0].(*banktypes.MsgSend))
		m.Amount = m.Amount.Add(sdk.NewCoin(utils.BaseDenom, sdkmath.OneInt()))
		return bd.SetMsgs(&m)
	})
	add("msg-recipient", true, func(bd client.TxBuilder, tx sdk.Tx) error {
		m := *(tx.GetMsgs()[0].(*banktypes.MsgSend))
		m.ToAddress = sdk.AccAddress(r.Bytes(20)).String()
		return bd.SetMsgs(&m)
	})
	add("msg-duplicated", true, func(bd client.TxBuilder, tx sdk.Tx) error {
		m := tx.GetMsgs()[0]
		return bd.SetMsgs(m, m)
	})
	add("memo", true, func(bd client.TxBuilder, _ sdk.Tx) error { bd.SetMemo("x"); return nil })
	add("fee+1", true, func(bd client.TxBuilder, tx sdk.Tx) error {
		bd.SetFeeAmount(tx.(sdk.FeeTx).GetFee().Add(sdk.NewCoin(utils.BaseDenom, sdkmath.OneInt())))
		return nil
	})
	add("gas+1", true, func(bd client.TxBuilder, tx sdk.Tx) error { bd.SetGasLimit(tx.(sdk.FeeTx).GetGas() + 1); return nil })
	add("timeout-height", true, func(bd client.TxBuilder, _ sdk.Tx) error { bd.SetTimeoutHeight(1_000_000); return nil })
	sigEdit := func(name string, intact bool, f func(s *signing.SignatureV2)) {
		add(name, intact, func(bd client.TxBuilder, tx sdk.Tx) error {
			sigs, err := tx.(interface {
				GetSignaturesV2() ([]signing.SignatureV2, error)
			}).GetSignaturesV2()
			if err != nil || len(sigs) != 1 {
				return fmt.Errorf("sigs")
			}
			f(&sigs[0])
			return bd.SetSignatures(sigs...)
		})
	}
	sigEdit("signer-info-sequence+1", true, func(s *signing.SignatureV2) { s.Sequence++ })
	sigEdit("signer-info-pubkey-other", true, func(s *signing.SignatureV2) { s.PubKey = b.Priv.PubKey() })
	if route != "eip712-ext" {
		sigEdit("signature-bitflip", false, func(s *signing.SignatureV2) {
			d := s.Data.(*signing.SingleSignatureData)
			sig := append([]byte{}, d.Signature...)
			sig[r.Intn(64)] ^= byte(1 << uint(r.Intn(8)))
			s.Data = &signing.SingleSignatureData{SignMode: d.SignMode, Signature: sig}
		})
		sigEdit("signature-empty", false, func(s *signing.SignatureV2) {
			d := s.Data.(*signing.SingleSignatureData)
			s.Data = &signing.SingleSignatureData{SignMode: d.SignMode, Signature: nil}
		})
	} else {
		ext := func(name string, intact bool, f func(e *haqqtypes.ExtensionOptionsWeb3Tx)) {
			add(name, intact, func(bd client.TxBuilder, tx sdk.Tx) error {
				e := sgWeb3Ext(tx)
				if e == nil {
					return fmt.Errorf("no ext")
				}
				c := *e
				c.FeePayerSig = append([]byte{}, e.FeePayerSig...)
				f(&c)
				o, err := codectypes.NewAnyWithValue(&c)
				if err != nil {
					return err
				}
				bd.(authtx.ExtensionOptionsTxBuilder).SetExtensionOptions(o)
				return nil
			})
		}
		ext("ext-typed-data-chain-id", true, func(e *haqqtypes.ExtensionOptionsWeb3Tx) { e.TypedDataChainID = sgOtherEIP155 })
		ext("ext-fee-payer-other", true, func(e *haqqtypes.ExtensionOptionsWeb3Tx) { e.FeePayer = b.Acc.String() })
		ext("ext-signature-bitflip", false, func(e *haqqtypes.ExtensionOptionsWeb3Tx) { e.FeePayerSig[r.Intn(64)] ^= byte(1 << uint(r.Intn(8))) })
		ext("ext-signature-truncated", false, func(e *haqqtypes.ExtensionOptionsWeb3Tx) { e.FeePayerSig = e.FeePayerSig[:64] })
		// the Cosmos signature slot must stay empty on this route: filling it tampers with the signature data
		sigEdit("cosmos-signature-filled", false, func(s *signing.SignatureV2) {
			d := s.Data.(*signing.SingleSignatureData)
			s.Data = &signing.SingleSignatureData{SignMode: d.SignMode, Signature: r.Bytes(65)}
		})
	}
	return out
}

// ---------------------------------------------------------------- records
type sgSub struct {
	What    string `json:"what"`
	Class   string `json:"class"`    // error class of the implementation
	Who     int    `json:"who"`      // interned account the transaction executed for, -1 = rejected
	OtherOK bool   `json:"other_ok"` // false = refused by a check the model does not contain
	// multi-message transactions only
	Msgs      []string `json:"msgs,omitempty"`       // the signed messages, in order
	Whos      []int    `json:"whos,omitempty"`       // per executed message, in order: the account it executed for
	Executed  []int    `json:"executed,omitempty"`   // per message: how often its signed transaction has executed in THIS Cosmos tx
	SeqBefore []uint64 `json:"seq_before,omitempty"` // sequences of the interned accounts
	SeqAfter  []uint64 `json:"seq_after,omitempty"`
	Deliver   string   `json:"deliver,omitempty"` // DeliverTx code and log
	Wrapper   string   `json:"wrapper,omitempty"` // wrapped submissions: the shape of the Cosmos transaction
	coq       string
	coqs      []string // one descriptor per message (multi-message transactions)
	wrap      string   // wrapped submissions: the Coq term of the wrapper
	flags     []string // transactions with contract creations: one "mk_cflag creates create_ok" per message
	op        string   // account-type operations: "<kind> <target>%N"
	seqs      []uint64
}

type sgHist struct {
	Init  []uint64
	Steps []sgSub
	Allow bool
}

type sgCase struct {
	accts     []sdk.AccAddress // interned accounts
	accnum    []uint64
	hists     []sgHist
	oracle    []string
	tags      map[string]bool
	bodies    map[string]int
	nAccepted int
}

func (c *sgCase) intern(a sdk.AccAddress) int {
	for i, x := range c.accts {
		if x.Equals(a) {
			return i
		}
	}
	c.accts = append(c.accts, a)
	return len(c.accts) - 1
}

func (c *sgCase) body(id string) int {
	if v, ok := c.bodies[id]; ok {
		return v
	}
	c.bodies[id] = len(c.bodies)
	return c.bodies[id]
}

func (c *sgCase) fail(f string, a ...interface{}) { c.oracle = append(c.oracle, fmt.Sprintf(f, a...)) }

func sigCoqOptN(i int) string {
	if i < 0 {
		return "None"
	}
	return fmt.Sprintf("(Some %d%%N)", i)
}

func coqU64s(xs []uint64) string {
	out := []string{}
	for _, x := range xs {
		out = append(out, coqU64(x))
	}
	return coqList(out)
}

func (c *sgCase) coq() string {
	hs := []string{}
	for _, h := range c.hists {
		// every history of a case talks about all accounts interned by the end of the case
		na := len(c.accts)
		init := []string{}
		for i := 0; i < na; i++ {
			v := uint64(0)
			if i < len(h.Init) {
				v = h.Init[i]
			}
			init = append(init, fmt.Sprintf("(%d%%N,%s)", i, coqU64(v)))
		}
		nums := []string{}
		for i, n := range c.accnum {
			nums = append(nums, fmt.Sprintf("(%d%%N,%s)", i, coqU64(n)))
		}
		steps := []string{}
		for _, s := range h.Steps {
			seqs := append([]uint64{}, s.seqs...)
			for len(seqs) < na {
				seqs = append(seqs, 0)
			}
			// a submission = the list of its signed units; outcome = the executing accounts in message order
			units, who := []string{s.coq}, "None"
			if s.coqs != nil {
				units = s.coqs
				if s.Whos != nil {
					ws := []string{}
					for _, x := range s.Whos {
						ws = append(ws, fmt.Sprintf("%d%%N", x))
					}
					who = "(Some " + coqList(ws) + ")"
				}
			} else if s.Who >= 0 {
				who = fmt.Sprintf("(Some [%d%%N])", s.Who)
			}
			sub := fmt.Sprintf("ESub (Direct %s %s)", coqList(units), coqBool(s.OtherOK))
			switch {
			case s.wrap != "":
				sub = fmt.Sprintf("ESub (Wrapped (%s) %s %s)", s.wrap, coqList(units), coqBool(s.OtherOK))
			case s.flags != nil: // an Ethereum-route transaction with contract creations: (message, creates / create_ok) pairs
				pairs := []string{}
				for i, u := range units {
					pairs = append(pairs, fmt.Sprintf("(%s, %s)", u, s.flags[i]))
				}
				sub = fmt.Sprintf("ECreating %s %s", coqList(pairs), coqBool(s.OtherOK))
			case s.op != "": // an account-type operation: its kind, its target, the signed unit of the transaction that performs it
				sub = fmt.Sprintf("EAccountOp %s %s %s", s.op, coqList(units), coqBool(s.OtherOK))
			}
			steps = append(steps, fmt.Sprintf("(%s, %s, %s)", sub, who, coqU64s(seqs)))
		}
		hs = append(hs, fmt.Sprintf("mk_hist (mk_node (mk_cfg %d%%Z %s) %q %s) %d %s\n     %s",
			sgThisEIP155, coqBool(h.Allow), chainID, coqList(nums), na, coqList(init), coqList(steps)))
	}
	return "[" + strings.Join(hs, ";\n   ") + "]"
}

// sgSnapshot reads the sequences of all interned accounts.
func (c *sgCase) snapshot(ctx sdk.Context, a *app.Haqq) []uint64 {
	out := make([]uint64, len(c.accts))
	for i, x := range c.accts {
		out[i] = sgSeq(ctx, a, x)
	}
	return out
}

// who executed: the interned account whose sequence moved (at most one may move)
func sgMoved(pre, post []uint64) (int, bool) {
	who, n := -1, 0
	for i := range post {
		p := uint64(0)
		if i < len(pre) {
			p = pre[i]
		}
		if post[i] != p {
			who = i
			n++
			if post[i] != p+1 {
				return i, false
			}
		}
	}
	return who, n <= 1
}

// sgWhy says, for the report, why a submission must not execute for the signer.
func sgWhy(what string) string {
	switch {
	case strings.HasPrefix(what, "replay"):
		return "a replay of a transaction that was already executed"
	case strings.HasPrefix(what, "nonce-ahead"):
		return "a transaction whose nonce is not the account's current sequence"
	case strings.HasPrefix(what, "env-"):
		return "an Ethereum message in a non-canonical Cosmos envelope (" + what + ")"
	case strings.HasPrefix(what, "forged:"):
		return "a message forged from transactions that were validated / executed earlier in this process (" + what[len("forged:"):] + ")"
	case strings.HasPrefix(what, "unprotected"):
		return "an unprotected (pre-EIP-155) signature, valid on every chain, while AllowUnprotectedTxs is false"
	case strings.HasPrefix(what, "signed-for-") || strings.HasPrefix(what, "eip712-domain"):
		return "a signature made for another chain id (" + what + ")"
	case strings.HasPrefix(what, "signed-"):
		return "a signature made over another account number / sequence (" + what + ")"
	}
	return "a signed transaction with one field changed after signing (" + what + ")"
}

// ---------------------------------------------------------------- the mutation cases
type sgInput struct {
	Kind  string `json:"kind"`  // "mutations" | "blocks" | "multi" | "wrapped" | "accountops" | "forged"
	Route string `json:"route"` // for mutations
	Seed  uint64 `json:"seed"`
	// kinds "multi" and "wrapped": the explicit script (generated from the seed when absent): initial
	// sequences of the sender accounts, then the Cosmos transactions -- a JSON array = the messages of one
	// Ethereum-route transaction, a JSON object {"wrap": ...} = a Cosmos transaction that carries signed
	// Ethereum messages on another route; a block boundary before transaction number Boundary (0 = none)
	Seq0     []uint64 `json:"seq0,omitempty"`
	Txs      []sgTx   `json:"txs,omitempty"`
	Boundary int      `json:"boundary,omitempty"`
	// ZeroFee (mutations): the chain admits transactions without a fee (fee market: no base fee, minimum gas price 0)
	// and every transaction of the case offers none: no rule about signatures or sequences may lean on the fee
	ZeroFee bool `json:"zero_fee,omitempty"`
}

// sgTx is one Cosmos transaction of a script.
type sgTx struct {
	Msgs []sgMsgSpec // the Ethereum route: ExtensionOptionsEthereumTx, these MsgEthereumTx and nothing else
	Wrap *sgWrap     // any other route
	Op   *sgOp       // an account-type operation
	// Check: the Ethereum-route transaction Msgs is only CHECKED (JSON {"check": [...]}): ValidateBasic and the ante
	// handler in CheckTx mode on a discarded branch of the state, and the application's real CheckTx; nothing is
	// delivered, no state changes -- but the process has seen and validated the messages
	Check bool
}

// sgOp: an operation on the TYPE of account Target, performed by a Cosmos transaction (Route, default
// cosmos-direct) of its own signer: "into-vesting" = MsgConvertIntoVestingAccount funded by account By (a
// grant of 1000 aISLM, already vested and unlocked) against the EXISTING account Target; "merge-vesting" = the
// same with merge = true (a further grant for an account that already is a vesting account); "back" =
// MsgConvertVestingAccount, signed by Target itself.
type sgOp struct {
	Kind   string `json:"kind"`
	By     int    `json:"by"`
	Target int    `json:"target"`
	Route  string `json:"route,omitempty"`
}

// sgWrap: a Cosmos transaction signed (routes cosmos-direct, cosmos-amino, eip712-ext, eip712-key) by
// account Signer at its current sequence, or (route eth-ext) unsigned behind the Ethereum extension
// option.  Its messages: Before plain MsgSend of the signer, then the inner messages -- as they are
// (depth 0) or inside Depth nested authz.MsgExec whose grantee is the signer --, then After plain
// MsgSend.  Grant: before the transaction the harness stores, directly in the authz keeper, a generic
// authorization for MsgEthereumTx from every carried message's signer to the wrapper's signer (the
// most permissive state; such a grant cannot be created by a transaction).  A wrapper whose inner
// messages contain no Ethereum message is an ordinary Cosmos transaction.
type sgWrap struct {
	Route  string    `json:"route"`
	Signer int       `json:"signer"`
	Before int       `json:"before,omitempty"`
	After  int       `json:"after,omitempty"`
	Depth  int       `json:"depth"`
	Inner  []sgInner `json:"inner"`
	Grant  bool      `json:"grant,omitempty"`
	// Seq: sign over this sequence instead of the signer's current one; the same wrap with the same Seq later in
	// the script is a re-delivery of the very same signed bytes
	Seq *uint64 `json:"seq,omitempty"`
}

// sgInner: a signed Ethereum message (named as in sgMsgSpec) or, when Eth is absent, a plain MsgSend.
type sgInner struct {
	Eth *sgMsgSpec `json:"eth,omitempty"`
}

func (t sgTx) MarshalJSON() ([]byte, error) {
	if t.Wrap != nil {
		return json.Marshal(struct {
			Wrap *sgWrap `json:"wrap"`
		}{t.Wrap})
	}
	if t.Op != nil {
		return json.Marshal(struct {
			Op *sgOp `json:"op"`
		}{t.Op})
	}
	if t.Check {
		return json.Marshal(struct {
			Check []sgMsgSpec `json:"check"`
		}{t.Msgs})
	}
	if t.Msgs == nil {
		return []byte("[]"), nil
	}
	return json.Marshal(t.Msgs)
}

func (t *sgTx) UnmarshalJSON(b []byte) error {
	if tb := bytes.TrimSpace(b); len(tb) > 0 && tb[0] == '[' {
		return json.Unmarshal(b, &t.Msgs)
	}
	var o struct {
		Wrap  *sgWrap     `json:"wrap"`
		Op    *sgOp       `json:"op"`
		Check []sgMsgSpec `json:"check"`
	}
	if err := json.Unmarshal(b, &o); err != nil {
		return err
	}
	if o.Wrap == nil && o.Op == nil && o.Check == nil {
		return fmt.Errorf("a transaction of a script is an array of messages, {\"wrap\": ...}, {\"op\": ...} or {\"check\": [...]}")
	}
	t.Wrap, t.Op, t.Msgs, t.Check = o.Wrap, o.Op, o.Check, o.Check != nil
	return nil
}

// carried: the signed Ethereum messages of the transaction, in order.
func (t sgTx) carried() []sgMsgSpec {
	if t.Op != nil {
		return nil
	}
	if t.Wrap == nil {
		return t.Msgs
	}
	out := []sgMsgSpec{}
	for _, im := range t.Wrap.Inner {
		if im.Eth != nil {
			out = append(out, *im.Eth)
		}
	}
	return out
}

// sgMsgSpec names one signed Ethereum transaction of a "multi" case: (from, nonce, alt) always denotes
// the same signed transaction (same hash) within a case; alt > 0 = another transaction the same account
// signed with the same nonce (a replacement); mut = a field changed AFTER signing (the recipient), so
// that the signature recovers to a stranger; fund = that stranger exists, is funded and has this nonce
// as its sequence, so that the altered message is executable -- on the stranger's behalf.
// create != "" = a contract creation (To = nil, no value): "ok" = init code 0x00 (deploys empty code), "fail" =
// init code 0xfe (the EVM execution fails), "store" = a constructor that writes a storage slot and returns a
// one-byte runtime.
// forge != nil = a message FORGED from the signed transaction (from, nonce, alt) -- which may have been executed,
// merely checked, or never shown to the node: see sgForge.
type sgMsgSpec struct {
	From   int      `json:"from"`
	Nonce  uint64   `json:"nonce"`
	Alt    int      `json:"alt,omitempty"`
	Mut    bool     `json:"mut,omitempty"`
	Fund   bool     `json:"fund,omitempty"`
	Create string   `json:"create,omitempty"`
	Forge  *sgForge `json:"forge,omitempty"`
}

// sgForge: what the adversary makes of a signed transaction T.  Data = T with the fields named in Change
// ("+"-separated: "nonce" := Nonce, "value" + 1, "to" := a fresh address, "gas" + 1000, "data" + one byte) altered
// and the V, R, S of T kept ("" = Data as signed).  Hash = the self-reported Hash text of the message: "" = recomputed
// from Data (what FromEthereumTx writes), "signed" = the hash of T as it was signed, "of" = the hash of the signed
// transaction Of (another earlier transaction, of any account), "random".  FromField = the From text: "" = empty,
// "signer" = the address of the account that signed T, "other" = the address of the next account.
type sgForge struct {
	Change    string    `json:"change,omitempty"`
	Nonce     uint64    `json:"nonce,omitempty"`
	Hash      string    `json:"hash,omitempty"`
	Of        *sgMsgRef `json:"of,omitempty"`
	FromField string    `json:"from_field,omitempty"`
}

type sgMsgRef struct {
	From  int    `json:"from"`
	Nonce uint64 `json:"nonce"`
	Alt   int    `json:"alt,omitempty"`
}

func (f *sgForge) key() string {
	if f == nil {
		return ""
	}
	of := ""
	if f.Of != nil {
		of = fmt.Sprintf("%d.%d.%d", f.Of.From, f.Of.Nonce, f.Of.Alt)
	}
	return fmt.Sprintf("/forge:%s:%d:%s:%s:%s", f.Change, f.Nonce, f.Hash, of, f.FromField)
}

var sgInitCode = map[string][]byte{
	"ok":    {0x00},
	"fail":  {0xfe},
	"store": {0x60, 0x2a, 0x60, 0x00, 0x55, 0x60, 0x00, 0x60, 0x00, 0x53, 0x60, 0x01, 0x60, 0x00, 0xf3},
}

type sgEthSubmit struct {
	what             string
	tx               *ethtypes.Transaction
	env              func(b authtx.ExtensionOptionsTxBuilder, msg *evmtypes.MsgEthereumTx)
	expect           string // "accept-for-signer" | "not-for-signer" | "record"
	fundRecovered    bool
	allowUnprotected bool
	// the self-reported fields of the message: Hash ("" = the hash of Data) and From ("" = empty) -- when either is
	// given the message is recorded as SEthMsg
	claimHash, claimFrom string
}

func (w *sgWorld) ethDescriptor(c *sgCase, tx *ethtypes.Transaction) (string, int) {
	rec := -1
	if a, err := ethtypes.Sender(ethtypes.LatestSignerForChainID(tx.ChainId()), tx); err == nil {
		rec = c.intern(sdk.AccAddress(a.Bytes()))
	}
	return fmt.Sprintf("SEth %s %s %s %s", coqBool(tx.Protected()), coqZ(tx.ChainId()), coqU64(tx.Nonce()), sigCoqOptN(rec)), rec
}

// ethMsgDescriptor: a message whose Hash / From texts were written by the sender of the envelope.  Everything but
// the two facts about the texts is computed from Data (tx = the conversion of Data), as in ethDescriptor.
func (w *sgWorld) ethMsgDescriptor(c *sgCase, tx *ethtypes.Transaction, claimHash, claimFrom string) (string, int) {
	_, rec := w.ethDescriptor(c, tx)
	hashBound := claimHash == "" || claimHash == tx.Hash().Hex()
	return fmt.Sprintf("SEthMsg %s %s %s %s %s %s", coqBool(hashBound), coqBool(claimFrom == ""), coqBool(tx.Protected()), coqZ(tx.ChainId()),
		coqU64(tx.Nonce()), sigCoqOptN(rec)), rec
}

// submitEth runs one Ethereum transaction through the ante handler on ctx and
// records it as a one-step history (branch = true) or appends it to main.
func (w *sgWorld) submitEth(c *sgCase, ctx sdk.Context, signer *sgAcct, s sgEthSubmit, h *sgHist) {
	desc, rec := w.ethDescriptor(c, s.tx)
	if s.claimHash != "" || s.claimFrom != "" {
		desc, rec = w.ethMsgDescriptor(c, s.tx, s.claimHash, s.claimFrom)
		inner := s.env
		s.env = func(b authtx.ExtensionOptionsTxBuilder, msg *evmtypes.MsgEthereumTx) {
			if s.claimHash != "" {
				msg.Hash = s.claimHash
			}
			msg.From = s.claimFrom
			_ = b.SetMsgs(msg)
			if inner != nil {
				inner(b, msg)
			}
		}
	}
	if s.fundRecovered && rec >= 0 && !c.accts[rec].Equals(signer.Acc) {
		// an account that "exists only by accident": give the recovered stranger funds and the right sequence
		sgInstall(ctx, w.App, c.accts[rec], s.tx.Nonce(), true)
		c.tags["stranger-funded"] = true
	}
	if s.allowUnprotected {
		p := w.App.EvmKeeper.GetParams(ctx)
		p.AllowUnprotectedTxs = true
		if err := w.App.EvmKeeper.SetParams(ctx, p); err != nil {
			panic(err)
		}
	}
	for len(c.accnum) < len(c.accts) {
		c.accnum = append(c.accnum, sgAccNum(ctx, w.App, c.accts[len(c.accnum)]))
	}
	pre := c.snapshot(ctx, w.App)
	preBal := sgBal(ctx, w.App, signer.Acc)
	if len(h.Steps) == 0 {
		h.Init = pre
		h.Allow = s.allowUnprotected
	}
	bz, err := w.sgEthBytes(s.tx, s.env)
	var aerr error
	if err != nil {
		aerr = fmt.Errorf("cannot build: %w", err)
	} else {
		aerr = w.sgRunAnte(ctx, bz)
	}
	class, modelled := sgErrClass(aerr)
	if err != nil {
		class, modelled = "unbuildable", false
	}
	post := c.snapshot(ctx, w.App)
	who, sane := sgMoved(pre, post)
	if !sane {
		c.fail("%s: more than one sequence moved, or one moved by more than 1 (%v -> %v)", s.what, pre, post)
	}
	if (aerr == nil) != (who >= 0) {
		c.fail("%s: ante result (%v) does not match the sequence movement %v -> %v", s.what, aerr, pre, post)
	}
	sub := sgSub{What: s.what, Class: class, Who: who, OtherOK: modelled, coq: desc, seqs: post}
	h.Steps = append(h.Steps, sub)
	c.tags[s.what+":"+class] = true
	signerIdx := c.intern(signer.Acc)
	postBal := sgBal(ctx, w.App, signer.Acc)
	switch s.expect {
	case "accept-for-signer":
		if who != signerIdx {
			c.fail("%s: a correctly signed transaction with the current nonce was not accepted on behalf of its signer (%s: %v)", s.what, class, aerr)
		} else {
			c.nAccepted++
		}
	case "not-for-signer":
		if who == signerIdx || post[signerIdx] != pre[signerIdx] {
			c.fail("%s was executed on behalf of the signing account (its sequence went %d -> %d)", sgWhy(s.what), pre[signerIdx], post[signerIdx])
		}
		if postBal.Cmp(preBal) < 0 {
			c.fail("%s made the signing account pay %s", sgWhy(s.what), new(big.Int).Sub(preBal, postBal))
		}
		if who >= 0 {
			c.tags["mutant-accepted-for-another-account"] = true
		}
	case "record":
		if who == signerIdx {
			c.tags[s.what+":accepted-for-signer"] = true
		}
	}
}

func (w *sgWorld) runEthMutations(c *sgCase, e *Env, r *Rng, route string) {
	ctx := e.Ctx
	a, b := sgNewAcct(r), sgNewAcct(r)
	seq0 := uint64(r.Intn(4))
	if r.Chance(10) {
		seq0 = 1 << 40
	}
	sgInstall(ctx, w.App, a.Acc, seq0, true)
	sgInstall(ctx, w.App, b.Acc, uint64(r.Intn(3)), true)
	c.intern(a.Acc)
	c.intern(b.Acc)

	baseFee := w.App.FeeMarketKeeper.GetBaseFee(ctx)
	if baseFee == nil {
		baseFee = big.NewInt(0)
	}
	price := new(big.Int).Add(new(big.Int).Mul(baseFee, big.NewInt(2)), big.NewInt(int64(1+r.Intn(1000))))
	if w.ZeroFee {
		price = big.NewInt(0)
	}
	mk := func(nonce uint64, chain int64) sgEthFields {
		f := sgEthFields{ChainID: big.NewInt(chain), Nonce: nonce, GasPrice: price, FeeCap: price, Tip: big.NewInt(int64(1 + r.Intn(100))), Gas: 400000 + uint64(r.Intn(1000)),
			Value: big.NewInt(int64(r.Intn(sgTransferUnit)))}
		if w.ZeroFee {
			f.Tip = big.NewInt(0)
		}
		switch route {
		case "eth-legacy":
			f.Type = 0
		case "eth-accesslist":
			f.Type = 1
		default:
			f.Type = 2
		}
		if !r.Chance(15) {
			t := b.Addr
			if r.Chance(50) {
				t = common.BytesToAddress(r.Bytes(20))
			}
			f.To = &t
		}
		f.Data = r.Bytes(r.Intn(40))
		if f.To == nil && len(f.Data) == 0 {
			f.Data = []byte{0x60, 0x00}
		}
		if f.Type != 0 {
			n := r.Intn(3)
			for i := 0; i < n; i++ {
				t := ethtypes.AccessTuple{Address: common.BytesToAddress(r.Bytes(20))}
				for k := r.Intn(3); k > 0; k-- {
					t.StorageKeys = append(t.StorageKeys, common.BytesToHash(r.Bytes(32)))
				}
				f.Access = append(f.Access, t)
			}
		}
		return f
	}
	sign := func(f sgEthFields, signer ethtypes.Signer, k *sgAcct) *ethtypes.Transaction {
		f.V, f.R, f.S = nil, nil, nil
		tx, err := ethtypes.SignTx(f.build(), signer, k.Key)
		if err != nil {
			panic(err)
		}
		return tx
	}
	f0 := mk(seq0, sgThisEIP155)
	orig := sign(f0, w.Signer, a)

	// ---- single-field mutations, each on its own branch of the state
	stranger := common.BytesToAddress(r.Bytes(20))
	for _, m := range sgEthMutants(r, orig, stranger) {
		bctx, _ := ctx.CacheContext()
		h := sgHist{}
		exp := "not-for-signer"
		if m.SameContent {
			exp = "record"
		}
		w.submitEth(c, bctx, a, sgEthSubmit{what: m.Name, tx: m.Tx, env: m.Env, expect: exp, claimHash: m.ClaimHash, claimFrom: m.ClaimFrom,
			fundRecovered: m.Env == nil && m.ClaimHash == "" && m.ClaimFrom == "" && r.Chance(45)}, &h)
		c.hists = append(c.hists, h)
	}
	// ---- signatures made for another chain id
	{
		ff := f0
		ff.ChainID = big.NewInt(sgOtherEIP155)
		foreign := sign(ff, ethtypes.LatestSignerForChainID(big.NewInt(sgOtherEIP155)), a)
		bctx, _ := ctx.CacheContext()
		h := sgHist{}
		w.submitEth(c, bctx, a, sgEthSubmit{what: "signed-for-chain-54211", tx: foreign, expect: "not-for-signer"}, &h)
		c.hists = append(c.hists, h)
		// ... and the same signature re-labelled with this chain's id
		x := sgFieldsOf(foreign)
		x.ChainID = big.NewInt(sgThisEIP155)
		if x.Type == 0 {
			par := new(big.Int).Sub(x.V, big.NewInt(35+2*sgOtherEIP155))
			x.V = new(big.Int).Add(par, big.NewInt(35+2*sgThisEIP155))
		}
		bctx, _ = ctx.CacheContext()
		h = sgHist{}
		w.submitEth(c, bctx, a, sgEthSubmit{what: "signed-for-54211-relabelled-11235", tx: x.build(), expect: "not-for-signer", fundRecovered: r.Chance(50)}, &h)
		c.hists = append(c.hists, h)
	}
	// ---- unprotected (pre-EIP-155) signature over the same fields
	if route == "eth-legacy" {
		home := sign(f0, ethtypes.HomesteadSigner{}, a)
		bctx, _ := ctx.CacheContext()
		h := sgHist{}
		w.submitEth(c, bctx, a, sgEthSubmit{what: "unprotected-pre-eip155", tx: home, expect: "not-for-signer"}, &h)
		c.hists = append(c.hists, h)
		// with AllowUnprotectedTxs = true the chain accepts such signatures by design (they are valid
		// on every chain): observed and compared with the model, not judged.
		bctx, _ = ctx.CacheContext()
		h = sgHist{}
		w.submitEth(c, bctx, a, sgEthSubmit{what: "unprotected-while-allowed", tx: home, expect: "record", allowUnprotected: true}, &h)
		c.hists = append(c.hists, h)
	}
	// ---- the main line: original accepted, replays rejected while the sequence moves on
	h := sgHist{}
	if r.Chance(30) {
		ahead := sign(mk(seq0+1, sgThisEIP155), w.Signer, a)
		w.submitEth(c, ctx, a, sgEthSubmit{what: "nonce-ahead-by-1", tx: ahead, expect: "not-for-signer"}, &h)
	}
	w.submitEth(c, ctx, a, sgEthSubmit{what: "original", tx: orig, expect: "accept-for-signer"}, &h)
	w.submitEth(c, ctx, a, sgEthSubmit{what: "replay-immediately", tx: orig, expect: "not-for-signer"}, &h)
	n := 1 + r.Intn(3)
	last := orig
	for i := 1; i <= n; i++ {
		next := sign(mk(seq0+uint64(i), sgThisEIP155), w.Signer, a)
		last = next
		w.submitEth(c, ctx, a, sgEthSubmit{what: "next-nonce", tx: next, expect: "accept-for-signer"}, &h)
		if r.Chance(50) {
			w.submitEth(c, ctx, a, sgEthSubmit{what: "replay-later", tx: orig, expect: "not-for-signer"}, &h)
		}
	}
	w.submitEth(c, ctx, a, sgEthSubmit{what: "replay-later", tx: orig, expect: "not-for-signer"}, &h)
	c.hists = append(c.hists, h)

	// ---- forged follow-ups: the process has now validated and executed orig .. last for account a.  The adversary
	// builds messages FROM them -- Data with the nonce set to a's current sequence (or value / recipient / gas
	// changed), the old V, R, S kept, under the Hash text of the original, of another executed transaction, or
	// recomputed; a From text naming a; a transaction of b under a's Hash text or From text -- each on its own
	// branch of the state, in the same process.  None may execute on behalf of a.
	cur := sgSeq(ctx, w.App, a.Acc)
	renonce := func(tx *ethtypes.Transaction, f func(*sgEthFields)) *ethtypes.Transaction {
		x := sgFieldsOf(tx)
		x.Nonce = cur
		if f != nil {
			f(&x)
		}
		return x.build()
	}
	one := big.NewInt(1)
	other := common.BytesToAddress(r.Bytes(20))
	bTx := sign(mk(sgSeq(ctx, w.App, b.Acc), sgThisEIP155), w.Signer, b)
	type forgery struct {
		name       string
		tx         *ethtypes.Transaction
		hash, from string
	}
	forgeries := []forgery{
		{"nonce-current/hash-of-original", renonce(orig, nil), orig.Hash().Hex(), ""},
		{"nonce-current/hash-recomputed", renonce(orig, nil), "", ""},
		{"nonce-current+value/hash-of-original", renonce(orig, func(f *sgEthFields) { f.Value = new(big.Int).Add(f.Value, one) }), orig.Hash().Hex(), ""},
		{"nonce-current+to/hash-of-original", renonce(orig, func(f *sgEthFields) { f.To = &other }), orig.Hash().Hex(), ""},
		{"nonce-current+gas/hash-of-original", renonce(orig, func(f *sgEthFields) { f.Gas++ }), orig.Hash().Hex(), ""},
		{"value/hash-of-original", func() *ethtypes.Transaction {
			x := sgFieldsOf(orig)
			x.Value = new(big.Int).Add(x.Value, one)
			return x.build()
		}(), orig.Hash().Hex(), ""},
		{"nonce-current/from-signer", renonce(orig, nil), "", a.Addr.Hex()},
		{"nonce-current/hash-of-original/from-signer", renonce(orig, nil), orig.Hash().Hex(), a.Addr.Hex()},
		{"tx-of-b/hash-of-original", bTx, orig.Hash().Hex(), ""},
		{"tx-of-b/from-signer", bTx, "", a.Addr.Hex()},
		{"nonce-current/hash-random", renonce(orig, nil), common.BytesToHash(r.Bytes(32)).Hex(), ""},
	}
	if n > 0 {
		forgeries = append(forgeries,
			forgery{"nonce-current/hash-of-last", renonce(orig, nil), last.Hash().Hex(), ""},
			forgery{"last-nonce-current/hash-of-last", renonce(last, nil), last.Hash().Hex(), ""},
			forgery{"last-nonce-current/hash-of-original", renonce(last, nil), orig.Hash().Hex(), ""})
	}
	for _, fg := range forgeries {
		bctx, _ := ctx.CacheContext()
		fh := sgHist{}
		w.submitEth(c, bctx, a, sgEthSubmit{what: "forged:" + fg.name, tx: fg.tx, expect: "not-for-signer", claimHash: fg.hash, claimFrom: fg.from}, &fh)
		c.hists = append(c.hists, fh)
	}
}

// ---- Cosmos / EIP-712
type sgCosmosSubmit struct {
	what   string
	bytes  []byte
	signed *sgSignedDoc // nil = signature bytes tampered with
	expect string
}

func (w *sgWorld) submitCosmos(c *sgCase, ctx sdk.Context, route string, signer *sgAcct, s sgCosmosSubmit, h *sgHist) {
	for len(c.accnum) < len(c.accts) {
		c.accnum = append(c.accnum, sgAccNum(ctx, w.App, c.accts[len(c.accnum)]))
	}
	pre := c.snapshot(ctx, w.App)
	preBal := sgBal(ctx, w.App, signer.Acc)
	if len(h.Steps) == 0 {
		h.Init = pre
	}
	signerIdx := c.intern(signer.Acc)
	// descriptor
	desc := ""
	{
		tx, err := w.TxCfg.TxDecoder()(s.bytes)
		claimed, bodyID := uint64(0), "undecodable"
		extChain, payerIsSigner := uint64(0), false
		txSigner := signerIdx
		if err == nil {
			bodyID = sgBodyID(tx)
			if st, ok := tx.(interface {
				GetSignaturesV2() ([]signing.SignatureV2, error)
			}); ok {
				if sigs, err := st.GetSignaturesV2(); err == nil && len(sigs) == 1 {
					claimed = sigs[0].Sequence
				}
			}
			if ss := tx.GetMsgs(); len(ss) > 0 {
				if sg := ss[0].GetSigners(); len(sg) > 0 {
					txSigner = c.intern(sg[0])
				}
			}
			if e := sgWeb3Ext(tx); e != nil {
				extChain = e.TypedDataChainID
				payerIsSigner = e.FeePayer == signer.Acc.String()
			}
		}
		signed := "None"
		if s.signed != nil {
			signed = fmt.Sprintf("(Some (mk_doc %q %s %s %d%%N))", s.signed.Chain, coqU64(s.signed.AccNum), coqU64(s.signed.Seq), c.body(s.signed.BodyID))
		}
		if route == "eip712-ext" {
			desc = fmt.Sprintf("SEip712 %d%%N %s %s %d%%N %d%%Z %s", txSigner, coqU64(claimed), signed, c.body(bodyID), extChain, coqBool(payerIsSigner))
		} else {
			desc = fmt.Sprintf("SCosmos %d%%N %s %s %d%%N", txSigner, coqU64(claimed), signed, c.body(bodyID))
		}
	}
	for len(c.accnum) < len(c.accts) {
		c.accnum = append(c.accnum, sgAccNum(ctx, w.App, c.accts[len(c.accnum)]))
	}
	pre = c.snapshot(ctx, w.App)
	if len(h.Steps) == 0 {
		h.Init = pre
	}
	aerr := w.sgRunAnte(ctx, s.bytes)
	class, modelled := sgErrClass(aerr)
	post := c.snapshot(ctx, w.App)
	who, sane := sgMoved(pre, post)
	if !sane {
		c.fail("%s: more than one sequence moved, or one moved by more than 1 (%v -> %v)", s.what, pre, post)
	}
	if (aerr == nil) != (who >= 0) {
		c.fail("%s: ante result (%v) does not match the sequence movement %v -> %v", s.what, aerr, pre, post)
	}
	h.Steps = append(h.Steps, sgSub{What: s.what, Class: class, Who: who, OtherOK: modelled, coq: desc, seqs: post})
	c.tags[s.what+":"+class] = true
	postBal := sgBal(ctx, w.App, signer.Acc)
	switch s.expect {
	case "accept-for-signer":
		if who != signerIdx {
			c.fail("%s: a correctly signed transaction with the current sequence was not accepted on behalf of its signer (%s: %v)", s.what, class, aerr)
		} else {
			c.nAccepted++
		}
	case "not-for-signer":
		if who == signerIdx || post[signerIdx] != pre[signerIdx] {
			c.fail("%s was executed on behalf of the signing account (its sequence went %d -> %d)", sgWhy(s.what), pre[signerIdx], post[signerIdx])
		}
		if postBal.Cmp(preBal) < 0 {
			c.fail("%s made the signing account pay %s", sgWhy(s.what), new(big.Int).Sub(preBal, postBal))
		}
	}
}

func (w *sgWorld) runCosmosMutations(c *sgCase, e *Env, r *Rng, route string) {
	ctx := e.Ctx
	a, b := sgNewAcct(r), sgNewAcct(r)
	seq0 := uint64(r.Intn(4))
	if r.Chance(10) {
		seq0 = 1 << 40
	}
	sgInstall(ctx, w.App, a.Acc, seq0, true)
	sgInstall(ctx, w.App, b.Acc, uint64(r.Intn(3)), true)
	c.intern(a.Acc)
	c.intern(b.Acc)
	accNum := sgAccNum(ctx, w.App, a.Acc)
	baseFee := w.App.FeeMarketKeeper.GetBaseFee(ctx)
	if baseFee == nil {
		baseFee = big.NewInt(0)
	}
	price := new(big.Int).Add(new(big.Int).Mul(baseFee, big.NewInt(2)), big.NewInt(int64(1+r.Intn(1000))))
	if w.ZeroFee {
		price = big.NewInt(0)
	}
	msgs := func() []sdk.Msg {
		return []sdk.Msg{banktypes.NewMsgSend(a.Acc, b.Acc, sdk.NewCoins(sdk.NewCoin(utils.BaseDenom, sdkmath.NewInt(int64(1+r.Intn(sgTransferUnit))))))}
	}
	m0 := msgs()
	orig, doc0, err := w.sgSignCosmos(ctx, route, a, chainID, accNum, seq0, m0, price)
	if err != nil {
		c.fail("cannot sign the original %s transaction: %v", route, err)
		return
	}
	branch := func(what string, bz []byte, signed *sgSignedDoc) {
		bctx, _ := ctx.CacheContext()
		h := sgHist{}
		w.submitCosmos(c, bctx, route, a, sgCosmosSubmit{what: what, bytes: bz, signed: signed, expect: "not-for-signer"}, &h)
		c.hists = append(c.hists, h)
	}
	// ---- single-field mutations of the signed transaction
	for _, m := range w.sgCosmosMutants(r, route, orig, a, b) {
		var sd *sgSignedDoc
		if m.SigIntact {
			d := doc0
			sd = &d
		}
		branch(m.Name, m.Bytes, sd)
	}
	// ---- the same content signed over another chain id / account number / sequence
	variant := func(what, chain string, an, sq uint64) {
		bz, d, err := w.sgSignCosmos(ctx, route, a, chain, an, sq, m0, price)
		if err != nil {
			c.tags[what+":unsignable"] = true
			return
		}
		branch(what, bz, &d)
	}
	variant("signed-for-chain-haqq_54211-3", sgOtherChain, accNum, seq0)
	variant("signed-account-number+1", chainID, accNum+1, seq0)
	variant("signed-sequence+1", chainID, accNum, seq0+1)
	if seq0 > 0 {
		variant("signed-sequence-1", chainID, accNum, seq0-1)
	}
	if strings.HasPrefix(route, "eip712") {
		// this chain's sign doc under the EIP-712 domain of the other network
		if bz, d, err := w.sgSignCosmosDomain(ctx, route, a, chainID, sgOtherChain, accNum, seq0, m0, price); err == nil {
			if route == "eip712-ext" {
				branch("eip712-domain-chain-54211", bz, &d) // the doc is this chain's; the extension says 54211
			} else {
				branch("eip712-domain-chain-54211", bz, nil) // no sign doc has this digest among its renderings
			}
		}
	}
	// ---- main line
	h := sgHist{}
	d := doc0
	w.submitCosmos(c, ctx, route, a, sgCosmosSubmit{what: "original", bytes: orig, signed: &d, expect: "accept-for-signer"}, &h)
	w.submitCosmos(c, ctx, route, a, sgCosmosSubmit{what: "replay-immediately", bytes: orig, signed: &d, expect: "not-for-signer"}, &h)
	n := 1 + r.Intn(2)
	for i := 1; i <= n; i++ {
		bz, di, err := w.sgSignCosmos(ctx, route, a, chainID, accNum, seq0+uint64(i), msgs(), price)
		if err != nil {
			c.fail("cannot sign: %v", err)
			break
		}
		w.submitCosmos(c, ctx, route, a, sgCosmosSubmit{what: "next-sequence", bytes: bz, signed: &di, expect: "accept-for-signer"}, &h)
		w.submitCosmos(c, ctx, route, a, sgCosmosSubmit{what: "replay-later", bytes: orig, signed: &d, expect: "not-for-signer"}, &h)
	}
	c.hists = append(c.hists, h)
}

// ---------------------------------------------------------------- block histories through DeliverTx
type sgPoolTx struct {
	acct  int
	nonce uint64
	route string
	bytes []byte
	desc  func(c *sgCase) string
}

func (w *sgWorld) runBlocks(c *sgCase, r *Rng) {
	a, _ := app.Setup(false, nil, chainID)
	w2 := &sgWorld{App: a, TxCfg: w.TxCfg, Signer: w.Signer}
	hdr := tmproto.Header{Height: 1, ChainID: chainID, Time: time.Unix(1_700_000_000, 0).UTC()}
	{
		// the EVM needs the block proposer (coinbase): the single genesis validator
		cctx := a.BaseApp.NewContext(false, hdr) // the deliver state left by InitChain
		vals := a.StakingKeeper.GetAllValidators(cctx)
		if len(vals) > 0 {
			if ca, err := vals[0].GetConsAddr(); err == nil {
				hdr.ProposerAddress = ca.Bytes()
			}
		}
	}
	a.BeginBlock(abci.RequestBeginBlock{Header: hdr})
	ctx := a.BaseApp.NewContext(false, hdr)
	na := 2 + r.Intn(2)
	accts := []*sgAcct{}
	seq0 := []uint64{}
	for i := 0; i < na; i++ {
		x := sgNewAcct(r)
		accts = append(accts, x)
		s := uint64(r.Intn(3))
		seq0 = append(seq0, s)
		sgInstall(ctx, a, x.Acc, s, true)
		c.intern(x.Acc)
	}
	for i := range accts {
		c.accnum = append(c.accnum, sgAccNum(ctx, a, accts[i].Acc))
	}
	baseFee := a.FeeMarketKeeper.GetBaseFee(ctx)
	if baseFee == nil {
		baseFee = big.NewInt(0)
	}
	price := new(big.Int).Add(new(big.Int).Mul(baseFee, big.NewInt(3)), big.NewInt(7))
	// a pool of correctly signed transactions: for every account the next 3-5 nonces
	pool := map[int][]*sgPoolTx{}
	for i, x := range accts {
		k := 3 + r.Intn(3)
		for j := 0; j < k; j++ {
			nonce := seq0[i] + uint64(j)
			route := sgRoutes[r.Intn(len(sgRoutes))]
			p := &sgPoolTx{acct: i, nonce: nonce, route: route}
			if strings.HasPrefix(route, "eth-") {
				f := sgEthFields{ChainID: big.NewInt(sgThisEIP155), Nonce: nonce, GasPrice: price, FeeCap: price, Tip: big.NewInt(1), Gas: 100000, Value: big.NewInt(int64(1 + r.Intn(100)))}
				to := accts[(i+1)%na].Addr
				f.To = &to
				f.Type = map[string]int{"eth-legacy": 0, "eth-accesslist": 1, "eth-dynamicfee": 2}[route]
				if r.Chance(25) { // a contract creation (deploys empty code / fails / stores a slot)
					kind := []string{"ok", "fail", "store"}[r.Intn(3)]
					f.To, f.Value, f.Data, f.Gas = nil, new(big.Int), sgInitCode[kind], 200000
					c.tags["blocks:creation:"+kind] = true
				}
				tx, err := ethtypes.SignTx(f.build(), w.Signer, x.Key)
				if err != nil {
					panic(err)
				}
				bz, err := w2.sgEthBytes(tx, nil)
				if err != nil {
					panic(err)
				}
				p.bytes = bz
				p.desc = func(c *sgCase) string { d, _ := w2.ethDescriptor(c, tx); return d }
			} else {
				msgs := []sdk.Msg{banktypes.NewMsgSend(x.Acc, accts[(i+1)%na].Acc, sdk.NewCoins(sdk.NewCoin(utils.BaseDenom, sdkmath.NewInt(int64(1+r.Intn(100))))))}
				bz, d, err := w2.sgSignCosmos(ctx, route, x, chainID, c.accnum[i], nonce, msgs, price)
				if err != nil {
					c.fail("cannot sign %s: %v", route, err)
					return
				}
				p.bytes = bz
				idx, claimed := i, nonce
				p.desc = func(c *sgCase) string {
					signed := fmt.Sprintf("(Some (mk_doc %q %s %s %d%%N))", d.Chain, coqU64(d.AccNum), coqU64(d.Seq), c.body(d.BodyID))
					if route == "eip712-ext" {
						return fmt.Sprintf("SEip712 %d%%N %s %s %d%%N %d%%Z true", idx, coqU64(claimed), signed, c.body(d.BodyID), sgThisEIP155)
					}
					return fmt.Sprintf("SCosmos %d%%N %s %s %d%%N", idx, coqU64(claimed), signed, c.body(d.BodyID))
				}
			}
			pool[i] = append(pool[i], p)
		}
	}
	// submission order: next valid / duplicate of something already submitted / a nonce further ahead
	next := make([]int, na)
	submitted := []*sgPoolTx{}
	order := []*sgPoolTx{}
	kinds := []string{}
	remaining := func() bool {
		for i := range accts {
			if next[i] < len(pool[i]) {
				return true
			}
		}
		return false
	}
	for remaining() && len(order) < 60 {
		i := r.Intn(na)
		switch k := r.Intn(10); {
		case k < 5 && next[i] < len(pool[i]):
			order = append(order, pool[i][next[i]])
			kinds = append(kinds, "in-order")
			submitted = append(submitted, pool[i][next[i]])
			next[i]++
		case k < 8 && len(submitted) > 0:
			order = append(order, submitted[r.Intn(len(submitted))])
			kinds = append(kinds, "duplicate")
		case next[i]+1 < len(pool[i]):
			j := next[i] + 1 + r.Intn(len(pool[i])-next[i]-1)
			order = append(order, pool[i][j])
			kinds = append(kinds, "ahead")
		}
	}
	// ---- deliver, with a block boundary somewhere
	shadow := append([]uint64{}, seq0...)
	executed := map[string]int{}
	h := sgHist{Init: c.snapshot(ctx, a)}
	boundary := -1
	if len(order) > 3 && r.Chance(60) {
		boundary = 1 + r.Intn(len(order)-2)
	}
	for k, p := range order {
		if k == boundary {
			a.EndBlock(abci.RequestEndBlock{Height: hdr.Height})
			a.Commit()
			hdr.Height++
			hdr.Time = hdr.Time.Add(5 * time.Second)
			a.BeginBlock(abci.RequestBeginBlock{Header: hdr})
			ctx = a.BaseApp.NewContext(false, hdr)
			c.tags["block-boundary"] = true
		}
		pre := c.snapshot(ctx, a)
		res := a.DeliverTx(abci.RequestDeliverTx{Tx: p.bytes})
		post := c.snapshot(ctx, a)
		who, sane := sgMoved(pre, post)
		what := kinds[k] + "/" + p.route
		if !sane {
			c.fail("step %d (%s): more than one sequence moved (%v -> %v)", k, what, pre, post)
		}
		class := "ok"
		modelled := true
		if res.Code != 0 {
			class = fmt.Sprintf("%s/%d", res.Codespace, res.Code)
			modelled = res.Codespace == "sdk" && (res.Code == errortypes.ErrInvalidSequence.ABCICode() || res.Code == errortypes.ErrWrongSequence.ABCICode() ||
				res.Code == errortypes.ErrUnauthorized.ABCICode() || res.Code == errortypes.ErrorInvalidSigner.ABCICode() || res.Code == errortypes.ErrNotSupported.ABCICode())
		}
		if (res.Code == 0) != (who >= 0) {
			c.fail("step %d (%s): DeliverTx code %d (%s) but sequences %v -> %v", k, what, res.Code, res.Log, pre, post)
		}
		c.tags["deliver:"+kinds[k]+":"+class] = true
		h.Steps = append(h.Steps, sgSub{What: what, Class: class, Who: who, OtherOK: modelled, coq: p.desc(c), seqs: post})
		// the property, on a shadow of the sequences
		key := fmt.Sprintf("%d/%d", p.acct, p.nonce)
		if who >= 0 {
			if who != p.acct {
				c.fail("step %d (%s): executed on behalf of account %d, signed by account %d", k, what, who, p.acct)
			}
			if p.nonce != shadow[p.acct] {
				c.fail("step %d (%s): nonce %d executed while the account's sequence was %d", k, what, p.nonce, shadow[p.acct])
			}
			executed[key]++
			if executed[key] > 1 {
				c.fail("step %d (%s): (account %d, nonce %d) executed %d times", k, what, p.acct, p.nonce, executed[key])
			}
			shadow[p.acct]++
			c.nAccepted++
		} else if p.nonce == shadow[p.acct] {
			c.fail("step %d (%s): a correctly signed transaction with the current nonce %d was rejected: code %d %s", k, what, p.nonce, res.Code, res.Log)
		}
	}
	c.hists = append(c.hists, h)
}

// ---------------------------------------------------------------- multi-message Ethereum transactions
// sgStartChain: a fresh real application with the first block begun (the single genesis validator proposes,
// the EVM needs the coinbase).
func sgStartChain() (*app.Haqq, tmproto.Header, sdk.Context) {
	a, _ := app.Setup(false, nil, chainID)
	hdr := tmproto.Header{Height: 1, ChainID: chainID, Time: time.Unix(1_700_000_000, 0).UTC()}
	cctx := a.BaseApp.NewContext(false, hdr) // the deliver state left by InitChain
	if vals := a.StakingKeeper.GetAllValidators(cctx); len(vals) > 0 {
		if ca, err := vals[0].GetConsAddr(); err == nil {
			hdr.ProposerAddress = ca.Bytes()
		}
	}
	a.BeginBlock(abci.RequestBeginBlock{Header: hdr})
	return a, hdr, a.BaseApp.NewContext(false, hdr)
}

func sgSpecKey(sp sgMsgSpec) string {
	return fmt.Sprintf("%d/%d/%d/%v/%s", sp.From, sp.Nonce, sp.Alt, sp.Mut, sp.Create) + sp.Forge.key()
}

// sgGenMulti writes the script of a "multi" case into the input: 2-3 sender accounts, 5-9 Cosmos
// transactions of 1-4 MsgEthereumTx.  A shadow of the sequences (advanced only by transactions that are
// in order) keeps the nonces meaningful.
func sgGenMulti(in *sgInput) {
	r := NewRng(in.Seed ^ 0x6d756c7469)
	na := 2 + r.Intn(2)
	sim := make([]uint64, na)
	for i := range sim {
		sim[i] = uint64(r.Intn(4))
		if r.Chance(5) {
			sim[i] = 1 << 40
		}
	}
	in.Seq0 = append([]uint64{}, sim...)
	executed := map[string]bool{}
	done := []sgMsgSpec{}
	M := func(from int, nonce uint64) sgMsgSpec { return sgMsgSpec{From: from, Nonce: nonce} }
	ntx := 5 + r.Intn(5)
	for t := 0; t < ntx; t++ {
		i := r.Intn(na)
		j := (i + 1 + r.Intn(na-1)) % na
		n, m := sim[i], sim[j]
		var tx []sgMsgSpec
		dup := func() {
			switch r.Intn(3) {
			case 0:
				tx = []sgMsgSpec{M(i, n), M(i, n)}
			case 1:
				tx = []sgMsgSpec{M(i, n), M(i, n+1), M(i, n+1)}
			default:
				tx = []sgMsgSpec{M(i, n), M(i, n), M(i, n+1)}
			}
		}
		switch k := r.Intn(100); {
		case k < 16: // one sender, nonces n, n+1, ...
			for q, l := 0, 2+r.Intn(2); q < l; q++ {
				tx = append(tx, M(i, n+uint64(q)))
			}
		case k < 28: // two senders interleaved, each in order
			tx = []sgMsgSpec{M(i, n), M(j, m), M(i, n+1)}
			if r.Bool() {
				tx = append(tx, M(j, m+1))
			}
		case k < 34:
			tx = []sgMsgSpec{M(i, n)}
		case k < 48: // the same signed transaction twice
			dup()
		case k < 57: // two different transactions signed with the same nonce (a replacement pair)
			tx = []sgMsgSpec{M(i, n), {From: i, Nonce: n, Alt: 1}}
			if r.Chance(30) {
				tx = append(tx, M(i, n+1))
			}
		case k < 65: // a gap, a nonce from the future
			switch r.Intn(3) {
			case 0:
				tx = []sgMsgSpec{M(i, n), M(i, n+2)}
			case 1:
				tx = []sgMsgSpec{M(i, n+1)}
			default:
				tx = []sgMsgSpec{M(i, n), M(i, n+1), M(i, n+3)}
			}
		case k < 70: // the right nonces in the wrong order
			tx = []sgMsgSpec{M(i, n+1), M(i, n)}
		case k < 82: // a message that was executed in an earlier transaction, alone or beside a fresh one
			if len(done) == 0 {
				dup()
				break
			}
			old := done[r.Intn(len(done))]
			cur := M(old.From, sim[old.From])
			switch r.Intn(3) {
			case 0:
				tx = []sgMsgSpec{cur, old}
			case 1:
				tx = []sgMsgSpec{old, cur}
			default:
				tx = []sgMsgSpec{old}
			}
		case k < 92: // a duplicate behind another sender's message
			switch r.Intn(3) {
			case 0:
				tx = []sgMsgSpec{M(i, n), M(j, m), M(i, n)}
			case 1:
				tx = []sgMsgSpec{M(i, n), M(j, m), M(j, m)}
			default:
				tx = []sgMsgSpec{M(i, n), M(j, m), M(i, n+1), M(j, m)}
			}
		default: // a message altered after signing, beside an honest one
			mut := sgMsgSpec{From: i, Nonce: n + 1, Mut: true, Fund: r.Bool()}
			tx = []sgMsgSpec{M(i, n), mut}
		}
		in.Txs = append(in.Txs, sgTx{Msgs: tx})
		// advance the shadow if the transaction is in order
		tmp := append([]uint64{}, sim...)
		seen := map[string]bool{}
		ok := true
		for _, sp := range tx {
			k := sgSpecKey(sp)
			if executed[k] || seen[k] || (sp.Mut && !sp.Fund) || (!sp.Mut && sp.Nonce != tmp[sp.From]) {
				ok = false
				break
			}
			seen[k] = true
			if !sp.Mut {
				tmp[sp.From]++
			}
		}
		if ok {
			sim = tmp
			for _, sp := range tx {
				executed[sgSpecKey(sp)] = true
				if !sp.Mut {
					done = append(done, sp)
				}
			}
		}
	}
	if len(done) == 0 { // nothing but refused transactions so far: finish with an in-order batch
		in.Txs = append(in.Txs, sgTx{Msgs: []sgMsgSpec{M(0, sim[0]), M(0, sim[0]+1)}})
	}
	if ntx > 3 && r.Chance(50) {
		in.Boundary = 1 + r.Intn(ntx-1)
	}
}

// sgGenCreates writes the script of a "multi" case with contract creations: one or two senders; 2-3 rounds, each a
// batch of 1-4 messages -- calls and creations (init code that deploys, that fails, a constructor that stores) at
// every position, nonces in order -- followed by re-deliveries of every message alone, of every proper suffix and
// prefix of the batch and of a random sub-batch, in random order.
func sgGenCreates(in *sgInput) {
	r := NewRng(in.Seed ^ 0x63726561746573)
	na := 1 + r.Intn(2)
	sim := make([]uint64, na)
	for i := range sim {
		sim[i] = uint64(r.Intn(4))
		if r.Chance(5) {
			sim[i] = 1 << 40
		}
	}
	in.Seq0 = append([]uint64{}, sim...)
	kinds := []string{"", "ok", "fail", "store"}
	weights := []int{45, 30, 10, 15}
	kind := func() string {
		x := r.Intn(100)
		for i, w := range weights {
			if x < w {
				return kinds[i]
			}
			x -= w
		}
		return ""
	}
	rounds := 2 + r.Intn(2)
	for q := 0; q < rounds; q++ {
		n := 1 + r.Intn(4)
		tx := []sgMsgSpec{}
		hasCreate := false
		for k := 0; k < n; k++ {
			i := r.Intn(na)
			sp := sgMsgSpec{From: i, Nonce: sim[i], Create: kind()}
			hasCreate = hasCreate || sp.Create != ""
			tx = append(tx, sp)
			sim[i]++
		}
		if !hasCreate && r.Chance(85) {
			tx[r.Intn(n)].Create = []string{"ok", "store"}[r.Intn(2)]
		}
		in.Txs = append(in.Txs, sgTx{Msgs: tx})
		again := [][]sgMsgSpec{}
		for k := range tx {
			again = append(again, []sgMsgSpec{tx[k]})
			if k > 0 {
				again = append(again, append([]sgMsgSpec{}, tx[k:]...), append([]sgMsgSpec{}, tx[:k]...))
			}
		}
		if n > 2 {
			sub := []sgMsgSpec{}
			for k := range tx {
				if r.Bool() {
					sub = append(sub, tx[k])
				}
			}
			if len(sub) > 0 {
				again = append(again, sub)
			}
		}
		for k := len(again) - 1; k > 0; k-- {
			j := r.Intn(k + 1)
			again[k], again[j] = again[j], again[k]
		}
		for _, t := range again {
			in.Txs = append(in.Txs, sgTx{Msgs: t})
		}
	}
	if n := len(in.Txs); n > 3 && r.Chance(50) {
		in.Boundary = 1 + r.Intn(n-1)
	}
}

// sgGenOps writes the script of an "accountops" case: 2-3 accounts; a victim (sequence 0 in 60%) executes 2-4
// transactions on random routes (Ethereum single / batch, also with a creation; Cosmos direct / amino / EIP-712
// signed over explicit sequences); then 1-3 rounds of: an account-type operation against the victim by another
// account (conversion into a vesting account, then merges or the conversion back), re-delivery of EVERY old
// signed transaction of the victim (and some of the others) in random order, 1-2 fresh transactions.
func sgGenOps(in *sgInput) {
	r := NewRng(in.Seed ^ 0x6163636f70)
	na := 2 + r.Intn(2)
	sim := make([]uint64, na)
	for i := range sim {
		if !r.Chance(60) {
			sim[i] = uint64(1 + r.Intn(3))
		}
	}
	in.Seq0 = append([]uint64{}, sim...)
	cosRoutes := []string{"cosmos-direct", "cosmos-amino", "eip712-ext", "eip712-key"}
	olds := map[int][]sgTx{} // what every account has signed (and got executed) so far, one transaction each
	submit := func(i int) {
		if r.Chance(45) {
			n := 1
			if r.Chance(30) {
				n = 2
			}
			tx := []sgMsgSpec{}
			for q := 0; q < n; q++ {
				sp := sgMsgSpec{From: i, Nonce: sim[i]}
				if r.Chance(20) {
					sp.Create = []string{"ok", "store", "fail"}[r.Intn(3)]
				}
				tx = append(tx, sp)
				olds[i] = append(olds[i], sgTx{Msgs: []sgMsgSpec{sp}})
				sim[i]++
			}
			in.Txs = append(in.Txs, sgTx{Msgs: tx})
			if n > 1 {
				olds[i] = append(olds[i], sgTx{Msgs: tx})
			}
			return
		}
		sq := sim[i]
		t := sgTx{Wrap: &sgWrap{Route: cosRoutes[r.Intn(len(cosRoutes))], Signer: i, Inner: []sgInner{{}}, Seq: &sq}}
		in.Txs = append(in.Txs, t)
		olds[i] = append(olds[i], t)
		sim[i]++
	}
	victim := r.Intn(na)
	other := func() int { return (victim + 1 + r.Intn(na-1)) % na }
	for q, n := 0, 2+r.Intn(3); q < n; q++ {
		if r.Chance(25) {
			submit(other())
		} else {
			submit(victim)
		}
	}
	vesting := false
	for round, n := 0, 1+r.Intn(3); round < n; round++ {
		op := &sgOp{By: other(), Target: victim, Route: []string{"cosmos-direct", "cosmos-direct", "cosmos-amino", "eip712-ext"}[r.Intn(4)]}
		switch {
		case !vesting:
			op.Kind, vesting = "into-vesting", true
		case r.Bool():
			op.Kind = "merge-vesting"
		default:
			op.Kind, op.By, vesting = "back", victim, false
			sim[victim]++ // the vesting account signs the conversion back itself
		}
		if op.Kind != "back" {
			sim[op.By]++
		}
		in.Txs = append(in.Txs, sgTx{Op: op})
		again := append([]sgTx{}, olds[victim]...)
		if o := other(); len(olds[o]) > 0 && r.Bool() {
			again = append(again, olds[o][r.Intn(len(olds[o]))])
		}
		for k := len(again) - 1; k > 0; k-- {
			j := r.Intn(k + 1)
			again[k], again[j] = again[j], again[k]
		}
		in.Txs = append(in.Txs, again...)
		for q, m := 0, 1+r.Intn(2); q < m; q++ {
			submit(victim)
		}
	}
	if n := len(in.Txs); n > 3 && r.Chance(50) {
		in.Boundary = 1 + r.Intn(n-1)
	}
}

func sgCoqOpt(x string) string {
	if x == "None" {
		return "None"
	}
	return "(Some (" + x + "))"
}

func (wr *sgWrap) isEthRoute() bool {
	if wr.Route != "eth-ext" || wr.Depth > 0 || wr.Before > 0 || wr.After > 0 || len(wr.Inner) == 0 {
		return false
	}
	for _, im := range wr.Inner {
		if im.Eth == nil {
			return false
		}
	}
	return true
}

// sgGenWrapped writes the script of a "wrapped" case into the input: 2-3 sender accounts; Ethereum-route
// transactions that execute (and keep the sequences moving), ordinary Cosmos transactions of the same
// accounts, and -- more than half of the steps -- Cosmos transactions that carry signed Ethereum messages
// on another route.  A shadow of the sequences keeps the nonces meaningful.
func sgGenWrapped(in *sgInput) {
	r := NewRng(in.Seed ^ 0x77726170706564)
	na := 2 + r.Intn(2)
	sim := make([]uint64, na)
	for i := range sim {
		sim[i] = uint64(r.Intn(4))
		if r.Chance(5) {
			sim[i] = 1 << 40
		}
	}
	in.Seq0 = append([]uint64{}, sim...)
	done := []sgMsgSpec{} // executed on the Ethereum route
	M := func(from int, nonce uint64) sgMsgSpec { return sgMsgSpec{From: from, Nonce: nonce} }
	direct := func(i, n int) {
		tx := []sgMsgSpec{}
		for q := 0; q < n; q++ {
			tx = append(tx, M(i, sim[i]))
			done = append(done, M(i, sim[i]))
			sim[i]++
		}
		in.Txs = append(in.Txs, sgTx{Msgs: tx})
	}
	pick := func(weights ...int) int {
		tot := 0
		for _, w := range weights {
			tot += w
		}
		x := r.Intn(tot)
		for i, w := range weights {
			if x < w {
				return i
			}
			x -= w
		}
		return 0
	}
	routes := []string{"cosmos-direct", "cosmos-amino", "eip712-ext", "eip712-key", "eth-ext"}
	direct(r.Intn(na), 1+r.Intn(2)) // something is executed before anything is carried
	nsteps := 5 + r.Intn(5)
	for t := 0; t < nsteps; t++ {
		k := r.Intn(100)
		switch {
		case k < 24:
			direct(r.Intn(na), 1+r.Intn(2))
		case k < 32: // an ordinary Cosmos transaction: the sequence moves on the Cosmos route
			i := r.Intn(na)
			wr := &sgWrap{Route: routes[pick(5, 2, 2, 2)], Signer: i, Before: r.Intn(2), Inner: []sgInner{{}}}
			if wr.Route == "cosmos-direct" && r.Bool() {
				wr.Depth = 1
			}
			in.Txs = append(in.Txs, sgTx{Wrap: wr})
			sim[i]++
		default:
			i := r.Intn(na)
			eth := []sgMsgSpec{}
			fresh := false
			q := r.Intn(100)
			switch {
			case q < 48 && len(done) > 0: // the replay: a message that was executed on the Ethereum route
				old := done[r.Intn(len(done))]
				eth, i = []sgMsgSpec{old}, old.From
			case q < 70: // not yet executed, valid for the current sequence
				eth, fresh = []sgMsgSpec{M(i, sim[i])}, true
			case q < 82: // from the future
				eth = []sgMsgSpec{M(i, sim[i]+1+uint64(r.Intn(3)))}
			case q < 90 && sim[i] > 0: // another transaction signed over a nonce that is used up
				eth = []sgMsgSpec{{From: i, Nonce: sim[i] - 1, Alt: 2}}
			case len(done) > 0: // a replay beside a message that is valid for the current sequence
				old := done[r.Intn(len(done))]
				i = old.From
				eth = []sgMsgSpec{old, M(i, sim[i])}
				if r.Bool() {
					eth[0], eth[1] = eth[1], eth[0]
				}
			default:
				eth, fresh = []sgMsgSpec{M(i, sim[i])}, true
			}
			// the inner messages: the Ethereum messages among 0-2 plain ones, at any position
			inner := []sgInner{}
			for _, e := range eth {
				e := e
				inner = append(inner, sgInner{Eth: &e})
			}
			for n := pick(55, 30, 15); n > 0; n-- {
				at := r.Intn(len(inner) + 1)
				inner = append(inner[:at], append([]sgInner{{}}, inner[at:]...)...)
			}
			wr := &sgWrap{Route: routes[pick(60, 12, 10, 10, 8)], Signer: i, Inner: inner}
			wr.Depth = []int{0, 1, 2, 3}[pick(18, 47, 20, 15)]
			wr.Before = []int{0, 1, 2, 3}[pick(40, 35, 15, 10)]
			wr.After = pick(75, 25)
			if r.Chance(35) { // wrapped by somebody else, with or without a stored grant
				wr.Signer = (i + 1 + r.Intn(na-1)) % na
				wr.Grant = r.Bool()
			}
			if wr.isEthRoute() {
				wr.Depth = 1
			}
			in.Txs = append(in.Txs, sgTx{Wrap: wr})
			if fresh && r.Bool() { // the carried message is still executable on its own route
				direct(i, 1)
			}
		}
	}
	if n := len(in.Txs); n > 3 && r.Chance(50) {
		in.Boundary = 1 + r.Intn(n-1)
	}
}

// sgGenForged writes the script of a "forged" case into the input: 2-3 sender accounts; genuine Ethereum-route
// transactions that execute (the sequences move), genuine ones that are merely CHECKED, and -- most steps -- Cosmos
// transactions with messages FORGED from transactions the process has executed, checked, or never seen: Data with
// the nonce set to the victim's current sequence (and / or value, recipient, gas, payload changed) and the old V, R,
// S kept, under the Hash text of the transaction as signed, of another earlier transaction (of any account), a
// recomputed or random one; Data as signed under a foreign Hash text; From texts naming the victim or somebody else
// -- alone, beside genuine messages of the victim or of another sender (before / behind them), two forgeries in one
// envelope, inside authz.MsgExec.  A shadow of the sequences keeps the nonces meaningful.
func sgGenForged(in *sgInput) {
	r := NewRng(in.Seed ^ 0x666f72676564)
	na := 2 + r.Intn(2)
	sim := make([]uint64, na)
	for i := range sim {
		sim[i] = uint64(r.Intn(4))
		if r.Chance(5) {
			sim[i] = 1 << 40
		}
	}
	in.Seq0 = append([]uint64{}, sim...)
	done := []sgMsgSpec{}    // executed on the Ethereum route
	checked := []sgMsgSpec{} // validated by CheckTx only
	M := func(from int, nonce uint64) sgMsgSpec { return sgMsgSpec{From: from, Nonce: nonce} }
	direct := func(i, n int) {
		tx := []sgMsgSpec{}
		for q := 0; q < n; q++ {
			tx = append(tx, M(i, sim[i]))
			done = append(done, M(i, sim[i]))
			sim[i]++
		}
		in.Txs = append(in.Txs, sgTx{Msgs: tx})
	}
	pick := func(weights ...int) int {
		tot := 0
		for _, w := range weights {
			tot += w
		}
		x := r.Intn(tot)
		for i, w := range weights {
			if x < w {
				return i
			}
			x -= w
		}
		return 0
	}
	ref := func(sp sgMsgSpec) *sgMsgRef { return &sgMsgRef{From: sp.From, Nonce: sp.Nonce, Alt: sp.Alt} }
	direct(r.Intn(na), 1+r.Intn(2)) // something is validated and executed before anything is forged
	nsteps := 6 + r.Intn(5)
	for t := 0; t < nsteps; t++ {
		k := r.Intn(100)
		switch {
		case k < 16:
			direct(r.Intn(na), 1+r.Intn(2))
		case k < 26: // a genuine transaction with the current nonce that is only checked (it may be delivered later)
			i := r.Intn(na)
			sp := M(i, sim[i])
			in.Txs = append(in.Txs, sgTx{Msgs: []sgMsgSpec{sp}, Check: true})
			checked = append(checked, sp)
		default:
			// ---- the transaction the forgery is made of
			var base sgMsgSpec
			switch q := r.Intn(100); {
			case q < 65 || len(checked) == 0 && q < 80:
				base = done[r.Intn(len(done))]
			case q < 80:
				base = checked[r.Intn(len(checked))]
			default: // signed by its account with the current nonce, never shown to the node
				i := r.Intn(na)
				base = sgMsgSpec{From: i, Nonce: sim[i], Alt: 5}
			}
			v := base.From
			forge := func(at uint64) sgMsgSpec {
				sp := base
				fg := &sgForge{}
				another := func() *sgMsgRef { // the hash of another earlier transaction, of any account
					for try := 0; try < 4; try++ {
						o := done[r.Intn(len(done))]
						if o != base {
							return ref(o)
						}
					}
					return nil
				}
				second := []string{"value", "to", "gas", "data"}
				switch pick(30, 8, 8, 10, 10, 10, 8, 6, 5, 5) {
				case 0: // THE forged replay: nonce := current sequence, Hash text of the transaction as signed
					fg.Change, fg.Nonce, fg.Hash = "nonce", at, "signed"
				case 1: // ... and one more field changed
					fg.Change, fg.Nonce, fg.Hash = "nonce+"+second[r.Intn(4)], at, "signed"
				case 2: // one field changed, the nonce as signed
					fg.Change, fg.Hash = second[r.Intn(4)], "signed"
				case 3: // the same signature values over changed Data, Hash recomputed
					fg.Change, fg.Nonce = "nonce", at
				case 4: // ... under the Hash text of another earlier transaction
					fg.Change, fg.Nonce, fg.Hash, fg.Of = "nonce", at, "of", another()
				case 5: // Data as signed under the Hash text of another earlier transaction
					fg.Hash, fg.Of = "of", another()
				case 6: // a From text naming the victim
					fg.Change, fg.Nonce, fg.FromField = "nonce", at, "signer"
					if r.Bool() {
						fg.Hash = "signed"
					}
				case 7: // Data as signed with a From text
					fg.FromField = []string{"signer", "other"}[r.Intn(2)]
				case 8:
					fg.Change, fg.Nonce, fg.Hash = "nonce", at, "random"
				default:
					fg.Hash = "random"
				}
				if fg.Hash == "of" && fg.Of == nil { // there is no other transaction yet
					fg.Hash = "random"
				}
				if at == base.Nonce && strings.HasPrefix(fg.Change, "nonce") {
					// the base carries the current nonce already (checked only / never submitted): "nonce := current" would
					// change nothing, another signed field is changed instead
					if rest := strings.TrimPrefix(strings.TrimPrefix(fg.Change, "nonce"), "+"); rest != "" {
						fg.Change = rest
					} else {
						fg.Change = second[r.Intn(4)]
					}
					fg.Nonce = 0
				}
				sp.Forge = fg
				return sp
			}
			at := sim[v]
			j := (v + 1 + r.Intn(na-1)) % na
			switch pick(50, 14, 8, 10, 10, 8) {
			case 0: // alone
				in.Txs = append(in.Txs, sgTx{Msgs: []sgMsgSpec{forge(at)}})
			case 1: // behind a genuine message of the victim: the sequence at that point is one further
				in.Txs = append(in.Txs, sgTx{Msgs: []sgMsgSpec{M(v, at), forge(at + 1)}})
			case 2: // before it
				in.Txs = append(in.Txs, sgTx{Msgs: []sgMsgSpec{forge(at), M(v, at)}})
			case 3: // beside a genuine message of another sender
				tx := []sgMsgSpec{M(j, sim[j]), forge(at)}
				if r.Bool() {
					tx[0], tx[1] = tx[1], tx[0]
				}
				in.Txs = append(in.Txs, sgTx{Msgs: tx})
			case 4: // two forgeries in one envelope
				in.Txs = append(in.Txs, sgTx{Msgs: []sgMsgSpec{forge(at), forge(at + 1)}})
			default: // carried by authz.MsgExec / as a plain message of a Cosmos transaction
				f := forge(at)
				wr := &sgWrap{Route: "cosmos-direct", Signer: []int{v, j}[r.Intn(2)], Depth: r.Intn(3), Before: r.Intn(2), Inner: []sgInner{{Eth: &f}}}
				in.Txs = append(in.Txs, sgTx{Wrap: wr})
			}
		}
	}
	direct(r.Intn(na), 1) // the genuine traffic goes on
	if n := len(in.Txs); n > 3 && r.Chance(50) {
		in.Boundary = 1 + r.Intn(n-1)
	}
}

type sgSigned struct {
	spec  sgMsgSpec
	tx    *ethtypes.Transaction
	hash  string
	to    common.Address
	value *big.Int
	cost  *big.Int // the most its sender can be charged: value + gas * price
	rec   int      // interned account the signature recovers to, -1 = none
	desc  string
	label string
	// contract creations: to = the address of the contract (CreateAddress(sender, nonce)), value = 0
	create string
	// forged messages (spec.Forge != nil): tx is the conversion of the message's Data, rec / to / value / cost are those
	// of Data; claimHash / claimFrom = the Hash and From texts of the message; noncanon = they are not what
	// FromEthereumTx writes for this Data; altered = Data is not what was signed
	forged, noncanon, altered bool
	claimHash, claimFrom      string
}

// ethMsg builds the MsgEthereumTx of a signed (or forged) message.
func (g *sgSigned) ethMsg() *evmtypes.MsgEthereumTx {
	m := &evmtypes.MsgEthereumTx{}
	if err := m.FromEthereumTx(g.tx); err != nil {
		panic(err)
	}
	if g.forged {
		m.Hash, m.From = g.claimHash, g.claimFrom
	}
	return m
}

func (w *sgWorld) runMulti(c *sgCase, in *sgInput) {
	if len(in.Txs) == 0 {
		switch {
		case in.Kind == "accountops":
			sgGenOps(in)
		case in.Kind == "wrapped":
			sgGenWrapped(in)
		case in.Kind == "forged":
			sgGenForged(in)
		case in.Seed%5 < 2: // two multi cases in five: batches with contract creations and their re-deliveries
			sgGenCreates(in)
		default:
			sgGenMulti(in)
		}
	}
	na := len(in.Seq0)
	for _, tx := range in.Txs {
		for _, sp := range tx.carried() {
			if sp.From+1 > na {
				na = sp.From + 1
			}
		}
		if tx.Wrap != nil && tx.Wrap.Signer+1 > na {
			na = tx.Wrap.Signer + 1
		}
		if tx.Op != nil {
			if tx.Op.By+1 > na {
				na = tx.Op.By + 1
			}
			if tx.Op.Target+1 > na {
				na = tx.Op.Target + 1
			}
		}
	}
	for len(in.Seq0) < na {
		in.Seq0 = append(in.Seq0, 0)
	}
	a, hdr, ctx := sgStartChain()
	w2 := &sgWorld{App: a, TxCfg: w.TxCfg, Signer: w.Signer, Ante: sgAnte(a, w.TxCfg)}
	kr := NewRng(in.Seed)
	accts := []*sgAcct{}
	for i := 0; i < na; i++ {
		x := sgNewAcct(kr)
		accts = append(accts, x)
		sgInstall(ctx, a, x.Acc, in.Seq0[i], true)
		c.intern(x.Acc)
	}
	baseFee := a.FeeMarketKeeper.GetBaseFee(ctx)
	if baseFee == nil {
		baseFee = big.NewInt(0)
	}
	price := new(big.Int).Add(new(big.Int).Mul(baseFee, big.NewInt(3)), big.NewInt(7))

	// ---- all signed messages of the script; the accounts they recover to are interned (and the funded
	// strangers installed) before the history starts
	signed := map[string]*sgSigned{}
	var get func(sp sgMsgSpec) *sgSigned
	get = func(sp sgMsgSpec) *sgSigned {
		if sp.Forge != nil && (sp.Mut || sp.Create != "") {
			sp.Forge = nil // forgeries are made of plain calls
			c.tags["forged:bad-script"] = true
		}
		key := sgSpecKey(sp)
		if g, ok := signed[key]; ok {
			return g
		}
		if fg := sp.Forge; fg != nil {
			base := get(sgMsgSpec{From: sp.From, Nonce: sp.Nonce, Alt: sp.Alt})
			fr := NewRng(in.Seed ^ 0x666f726765)
			for _, ch := range []byte(key) {
				fr = NewRng(fr.U64() ^ uint64(ch))
			}
			x := sgFieldsOf(base.tx)
			to := base.to
			changes := []string{}
			for _, ch := range strings.Split(fg.Change, "+") {
				switch ch {
				case "nonce":
					x.Nonce = fg.Nonce
					changes = append(changes, fmt.Sprintf("nonce:=%d", fg.Nonce))
				case "value":
					x.Value = new(big.Int).Add(x.Value, big.NewInt(1))
					changes = append(changes, "value+1")
				case "to":
					to = common.BytesToAddress(fr.Bytes(20))
					x.To = &to
					changes = append(changes, "recipient")
				case "gas":
					x.Gas += 1000
					changes = append(changes, "gas+1000")
				case "data":
					x.Data = append(x.Data, 0x01)
					changes = append(changes, "payload")
				}
			}
			tx := x.build()
			g := &sgSigned{spec: sp, tx: tx, hash: tx.Hash().Hex()[:12], to: to, value: tx.Value(), forged: true}
			g.altered = tx.Hash() != base.tx.Hash()
			hashText := "recomputed from Data"
			g.claimHash = tx.Hash().Hex()
			switch fg.Hash {
			case "signed":
				g.claimHash, hashText = base.tx.Hash().Hex(), "of the transaction as signed ("+base.hash+")"
			case "of":
				ref := base
				if fg.Of != nil {
					ref = get(sgMsgSpec{From: fg.Of.From, Nonce: fg.Of.Nonce, Alt: fg.Of.Alt})
				}
				g.claimHash, hashText = ref.tx.Hash().Hex(), "of "+ref.label+" ("+ref.hash+")"
			case "random":
				g.claimHash, hashText = common.BytesToHash(fr.Bytes(32)).Hex(), "random"
			}
			fromText := "empty"
			switch fg.FromField {
			case "signer":
				g.claimFrom, fromText = accts[sp.From%len(accts)].Addr.Hex(), fmt.Sprintf("account%d", sp.From)
			case "other":
				g.claimFrom, fromText = accts[(sp.From+1)%len(accts)].Addr.Hex(), fmt.Sprintf("account%d", (sp.From+1)%len(accts))
			}
			g.noncanon = g.claimHash != tx.Hash().Hex() || g.claimFrom != ""
			what := "Data as signed"
			if g.altered {
				what = "Data changed after signing (" + strings.Join(changes, ", ") + "; V, R, S kept)"
			}
			g.label = fmt.Sprintf("%s/FORGED[%s; Hash text %s; From text %s]", base.label, what, hashText, fromText)
			g.cost = new(big.Int).Add(tx.Value(), new(big.Int).Mul(price, new(big.Int).SetUint64(tx.Gas())))
			g.desc, g.rec = w2.ethMsgDescriptor(c, tx, g.claimHash, g.claimFrom)
			signed[key] = g
			return g
		}
		rr := NewRng(in.Seed ^ (uint64(sp.From+1)*0x9E3779B97F4A7C15 + sp.Nonce*0xC2B2AE3D27D4EB4F + uint64(sp.Alt+1)*0x165667B19E3779F9))
		to := common.BytesToAddress(rr.Bytes(20))
		f := sgEthFields{Type: rr.Intn(3), ChainID: big.NewInt(sgThisEIP155), Nonce: sp.Nonce, GasPrice: price, FeeCap: price, Tip: big.NewInt(1),
			Gas: 100000, To: &to, Value: big.NewInt(int64(1 + rr.Intn(sgTransferUnit)))}
		if code, ok := sgInitCode[sp.Create]; ok {
			f.To, f.Value, f.Data, f.Gas = nil, new(big.Int), code, 200000
			to = crypto.CreateAddress(accts[sp.From].Addr, sp.Nonce)
		}
		tx, err := ethtypes.SignTx(f.build(), w.Signer, accts[sp.From].Key)
		if err != nil {
			panic(err)
		}
		label := fmt.Sprintf("account%d/nonce%d", sp.From, sp.Nonce)
		if f.To == nil {
			label += "/create-" + sp.Create
		}
		if sp.Alt > 0 {
			label += fmt.Sprintf("/replacement%d", sp.Alt)
		}
		if sp.Mut && f.To != nil { // the recipient is changed after signing: same V, R, S over other content
			x := sgFieldsOf(tx)
			to = common.BytesToAddress(rr.Bytes(20))
			x.To = &to
			tx = x.build()
			label += "/recipient-altered-after-signing"
		}
		g := &sgSigned{spec: sp, tx: tx, hash: tx.Hash().Hex()[:12], to: to, value: tx.Value(), label: label}
		if f.To == nil {
			g.create = sp.Create
		}
		g.cost = new(big.Int).Add(tx.Value(), new(big.Int).Mul(price, new(big.Int).SetUint64(tx.Gas())))
		g.desc, g.rec = w2.ethDescriptor(c, tx)
		signed[key] = g
		return g
	}
	for _, tx := range in.Txs {
		for _, sp := range tx.carried() {
			g := get(sp)
			if sp.Mut && sp.Fund && g.rec >= na && sgSeq(ctx, a, c.accts[g.rec]) == 0 && sgBal(ctx, a, c.accts[g.rec]).Sign() == 0 {
				sgInstall(ctx, a, c.accts[g.rec], sp.Nonce, true)
				c.tags["stranger-funded"] = true
			}
		}
	}
	for len(c.accnum) < len(c.accts) {
		c.accnum = append(c.accnum, sgAccNum(ctx, a, c.accts[len(c.accnum)]))
	}
	bals := func() []*big.Int {
		out := make([]*big.Int, len(c.accts))
		for i, x := range c.accts {
			out[i] = sgBal(ctx, a, x)
		}
		return out
	}
	h := sgHist{Init: c.snapshot(ctx, a)}
	execTotal := map[string]int{}

	// ---- how often a signed message executed, counted on the state.  A call pays its private recipient.  A
	// contract creation leaves a contract account at CreateAddress(sender, nonce); a creation whose EVM execution
	// fails (or whose contract account was there before) leaves nothing but the sender's payment, so for creations
	// the count is the number of times the message stands in an ACCEPTED transaction (DeliverTx processes a
	// transaction as a whole), cross-checked with the contract account.
	type sgPre struct {
		bal    *big.Int
		exists bool
	}
	snapTo := func(ms []*sgSigned) map[string]sgPre {
		out := map[string]sgPre{}
		for _, g := range ms {
			to := sdk.AccAddress(g.to.Bytes())
			out[g.hash] = sgPre{bal: sgBal(ctx, a, to), exists: a.AccountKeeper.GetAccount(ctx, to) != nil}
		}
		return out
	}
	countExecs := func(what string, ms []*sgSigned, pre map[string]sgPre, accepted bool) (map[string]int, map[string]bool, bool) {
		execs, created := map[string]int{}, map[string]bool{}
		occ := map[string]int{}
		for _, g := range ms {
			occ[g.hash]++
		}
		anyExec := false
		for _, g := range ms {
			if _, ok := execs[g.hash]; ok {
				continue
			}
			to := sdk.AccAddress(g.to.Bytes())
			if g.create != "" {
				created[g.hash] = !pre[g.hash].exists && a.AccountKeeper.GetAccount(ctx, to) != nil
				n := 0
				switch {
				case accepted:
					n = occ[g.hash]
				case created[g.hash]:
					n = 1
				}
				if accepted && g.create != "fail" && !pre[g.hash].exists && !created[g.hash] {
					c.tags["create:accepted-without-contract"] = true
				}
				if created[g.hash] && g.create == "fail" {
					c.tags["create:failing-init-code-left-a-contract"] = true
				}
				execs[g.hash] = n
				anyExec = anyExec || n > 0
				c.tags[fmt.Sprintf("create:%s:created=%v", g.create, created[g.hash])] = true
				continue
			}
			d := new(big.Int).Sub(sgBal(ctx, a, to), pre[g.hash].bal)
			q, rem := new(big.Int).QuoRem(d, g.value, new(big.Int))
			if rem.Sign() != 0 || d.Sign() < 0 || !q.IsInt64() {
				c.fail("%s: the recipient of %s received %s, not a multiple of the signed value %s", what, g.label, d, g.value)
			}
			execs[g.hash] = int(q.Int64())
			anyExec = anyExec || q.Sign() > 0
		}
		return execs, created, anyExec
	}

	// ---- an account-type operation between submissions
	cosmosExec := map[string]int{}
	opStep := func(t int, op *sgOp) {
		what := fmt.Sprintf("tx%d", t)
		if op.By < 0 || op.By >= len(accts) || op.Target < 0 || op.Target >= len(accts) {
			c.tags["op:bad-script"] = true
			return
		}
		by, tgt := accts[op.By], accts[op.Target]
		signer := by
		grant := sdk.NewCoins(sdk.NewCoin(utils.BaseDenom, sdkmath.NewInt(1000)))
		periods := sdkvesting.Periods{{Length: 1, Amount: grant}}
		var msg sdk.Msg
		coqOp := ""
		switch op.Kind {
		case "into-vesting":
			msg, coqOp = vestingtypes.NewMsgConvertIntoVestingAccount(by.Acc, tgt.Acc, ctx.BlockTime().Add(-time.Hour), periods, periods, false, false, nil), "OpConvertIntoVesting"
		case "merge-vesting":
			msg, coqOp = vestingtypes.NewMsgConvertIntoVestingAccount(by.Acc, tgt.Acc, ctx.BlockTime().Add(-time.Hour), periods, periods, true, false, nil), "OpMergeVesting"
		case "back":
			signer = tgt
			msg, coqOp = vestingtypes.NewMsgConvertVestingAccount(tgt.Acc), "OpConvertBack"
		default:
			c.tags["op:bad-script"] = true
			return
		}
		route := op.Route
		if route == "" {
			route = "cosmos-direct"
		}
		signerIdx, tgtIdx := c.intern(signer.Acc), c.intern(tgt.Acc)
		seq := sgSeq(ctx, a, signer.Acc)
		bz, d, err := w2.sgSignCosmosGas(ctx, route, signer, chainID, chainID, sgAccNum(ctx, a, signer.Acc), seq, []sdk.Msg{msg}, price, 800000)
		if err != nil {
			c.tags["op:unbuildable:"+op.Kind+":"+route] = true
			return
		}
		signed := fmt.Sprintf("(Some (mk_doc %q %s %s %d%%N))", d.Chain, coqU64(d.AccNum), coqU64(d.Seq), c.body(d.BodyID))
		desc := fmt.Sprintf("SCosmos %d%%N %s %s %d%%N", signerIdx, coqU64(seq), signed, c.body(d.BodyID))
		if route == "eip712-ext" {
			desc = fmt.Sprintf("SEip712 %d%%N %s %s %d%%N %d%%Z true", signerIdx, coqU64(seq), signed, c.body(d.BodyID), sgThisEIP155)
		}
		typeOf := func() string {
			t := fmt.Sprintf("%T", a.AccountKeeper.GetAccount(ctx, tgt.Acc))
			return t[strings.LastIndex(t, ".")+1:]
		}
		pre, typeBefore := c.snapshot(ctx, a), typeOf()
		bctx, _ := ctx.CacheContext()
		aerr := w2.sgRunAnte(bctx, bz)
		class, modelled := sgErrClass(aerr)
		res := a.DeliverTx(abci.RequestDeliverTx{Tx: bz})
		post, typeAfter := c.snapshot(ctx, a), typeOf()
		shape := fmt.Sprintf("%s of account%d (%s -> %s) by a %s transaction of account%d, code %d", op.Kind, op.Target, typeBefore, typeAfter, route, c.intern(signer.Acc), res.Code)
		// the property: the sequence of an account never decreases (else what it signed before can be delivered again)
		for i := range post {
			if post[i] < pre[i] {
				c.fail("%s (%s): the sequence of account %d went DOWN %d -> %d: every transaction it signed with a nonce from %d on can be delivered a second time",
					what, shape, i, pre[i], post[i], post[i])
			}
		}
		who := -1
		if post[signerIdx] == pre[signerIdx]+1 {
			who = signerIdx
		}
		log := res.Log
		if len(log) > 140 {
			log = log[:140]
		}
		h.Steps = append(h.Steps, sgSub{What: what + ":op:" + op.Kind, Class: class, Who: who, OtherOK: modelled, SeqBefore: pre, SeqAfter: post,
			Deliver: fmt.Sprintf("code %d %s", res.Code, log), Wrapper: shape, coq: desc, op: fmt.Sprintf("%s %d%%N", coqOp, tgtIdx), seqs: post})
		c.tags[fmt.Sprintf("op:%s:%s->%s:code%d", op.Kind, typeBefore, typeAfter, res.Code)] = true
	}

	// ---- a Cosmos transaction that carries signed Ethereum messages on a route that is not theirs
	sink := sdk.AccAddress(NewRng(in.Seed ^ 0x73696e6b).Bytes(20))
	ethURL := sdk.MsgTypeURL(&evmtypes.MsgEthereumTx{})
	wrapped := func(t int, wr *sgWrap) {
		what := fmt.Sprintf("tx%d", t)
		if wr.Signer < 0 || wr.Signer >= len(accts) {
			c.tags["wrapped:bad-script"] = true
			return
		}
		signer := accts[wr.Signer]
		signerIdx := c.intern(signer.Acc)
		plain := func() sdk.Msg {
			return banktypes.NewMsgSend(signer.Acc, sink, sdk.NewCoins(sdk.NewCoin(utils.BaseDenom, sdkmath.NewInt(1))))
		}
		carried := []*sgSigned{}
		inner := []sdk.Msg{}
		labels, descs, shapeInner := []string{}, []string{}, []string{}
		for _, im := range wr.Inner {
			if im.Eth == nil {
				inner = append(inner, plain())
				shapeInner = append(shapeInner, "send")
				continue
			}
			g := get(*im.Eth)
			m := g.ethMsg()
			if !g.forged {
				m.From = ""
			}
			carried = append(carried, g)
			inner = append(inner, m)
			labels = append(labels, g.label+" "+g.hash)
			descs = append(descs, g.desc)
			shapeInner = append(shapeInner, "eth:"+g.label)
		}
		depth := wr.Depth
		if depth < 0 {
			depth = 0
		}
		if depth > 6 {
			depth = 6
		}
		core := inner
		for d := 0; d < depth; d++ {
			ex := authz.NewMsgExec(signer.Acc, core)
			core = []sdk.Msg{&ex}
		}
		msgs := []sdk.Msg{}
		for i := 0; i < wr.Before && i < 8; i++ {
			msgs = append(msgs, plain())
		}
		msgs = append(msgs, core...)
		for i := 0; i < wr.After && i < 8; i++ {
			msgs = append(msgs, plain())
		}
		if len(msgs) == 0 {
			c.tags["wrapped:bad-script"] = true
			return
		}
		shape := fmt.Sprintf("%s signed by account%d: %d x MsgSend, %d x MsgExec around [%s], %d x MsgSend; grant stored: %v",
			wr.Route, wr.Signer, wr.Before, depth, strings.Join(shapeInner, ", "), wr.After, wr.Grant)
		cosmosSigned := wr.Route != "eth-ext"
		if len(carried) == 0 && !cosmosSigned {
			c.tags["wrapped:bad-script"] = true
			return
		}
		if wr.Grant {
			for _, g := range carried {
				if g.rec >= 0 && !c.accts[g.rec].Equals(signer.Acc) {
					if err := a.AuthzKeeper.SaveGrant(ctx, signer.Acc, c.accts[g.rec], authz.NewGenericAuthorization(ethURL), nil); err != nil {
						c.tags["wrapped:grant-not-stored"] = true
					} else {
						c.tags["wrapped:grant-stored"] = true
					}
				}
			}
		}
		// ---- the bytes
		var bz []byte
		outer := "None"
		gas := uint64(300000 + 400000*len(carried) + 60000*len(msgs))
		if cosmosSigned {
			seq := sgSeq(ctx, a, signer.Acc)
			if wr.Seq != nil {
				seq = *wr.Seq
				c.tags["wrapped:explicit-sequence"] = true
			}
			accNum := sgAccNum(ctx, a, signer.Acc)
			b, d, err := w2.sgSignCosmosGas(ctx, wr.Route, signer, chainID, chainID, accNum, seq, msgs, price, gas)
			signed := "None"
			if err == nil {
				signed = fmt.Sprintf("(Some (mk_doc %q %s %s %d%%N))", d.Chain, coqU64(d.AccNum), coqU64(d.Seq), c.body(d.BodyID))
			} else if wr.Route != "cosmos-direct" {
				// amino JSON and the EIP-712 typed data cannot render this transaction (MsgEthereumTx refuses to give amino
				// sign bytes, the legacy typed data has no MsgExec), so no valid signature of the route exists for it:
				// the envelope of the route is put around a SIGN_MODE_DIRECT signature
				var b0 []byte
				if b0, _, err = w2.sgSignCosmosGas(ctx, "cosmos-direct", signer, chainID, chainID, accNum, seq, msgs, price, gas); err == nil {
					b, err = w2.sgCosmosMutate(b0, func(bd client.TxBuilder, tx sdk.Tx) error {
						sigs, err := tx.(interface {
							GetSignaturesV2() ([]signing.SignatureV2, error)
						}).GetSignaturesV2()
						if err != nil || len(sigs) != 1 {
							return fmt.Errorf("sigs")
						}
						dd, ok := sigs[0].Data.(*signing.SingleSignatureData)
						if !ok {
							return fmt.Errorf("sig data")
						}
						if wr.Route == "eip712-ext" {
							o, err := codectypes.NewAnyWithValue(&haqqtypes.ExtensionOptionsWeb3Tx{TypedDataChainID: sgThisEIP155, FeePayer: signer.Acc.String(), FeePayerSig: dd.Signature})
							if err != nil {
								return err
							}
							bd.(authtx.ExtensionOptionsTxBuilder).SetExtensionOptions(o)
						}
						sigs[0].Data = &signing.SingleSignatureData{SignMode: signing.SignMode_SIGN_MODE_LEGACY_AMINO_JSON, Signature: dd.Signature}
						return bd.SetSignatures(sigs...)
					})
					c.tags[fmt.Sprintf("wrapped:envelope-without-valid-signature:%s:depth%d", wr.Route, depth)] = true
				}
			}
			if err != nil {
				c.tags[fmt.Sprintf("wrapped:unbuildable:%s:depth%d", wr.Route, depth)] = true
				return
			}
			bz = b
			bodyID := "undecodable"
			if dec, derr := w2.TxCfg.TxDecoder()(bz); derr == nil {
				bodyID = sgBodyID(dec)
			}
			if wr.Route == "eip712-ext" {
				outer = fmt.Sprintf("SEip712 %d%%N %s %s %d%%N %d%%Z true", signerIdx, coqU64(seq), signed, c.body(bodyID), sgThisEIP155)
			} else {
				outer = fmt.Sprintf("SCosmos %d%%N %s %s %d%%N", signerIdx, coqU64(seq), signed, c.body(bodyID))
			}
		} else {
			// behind the Ethereum extension option, no Cosmos signature; fee and gas = sum over the carried messages
			b := w2.TxCfg.NewTxBuilder()
			eb, ok := b.(authtx.ExtensionOptionsTxBuilder)
			opt, err := codectypes.NewAnyWithValue(&evmtypes.ExtensionOptionsEthereumTx{})
			if !ok || err != nil {
				c.tags["wrapped:unbuildable:eth-ext"] = true
				return
			}
			eb.SetExtensionOptions(opt)
			fee, gl := new(big.Int), uint64(0)
			for _, g := range carried {
				fee.Add(fee, new(big.Int).Mul(price, new(big.Int).SetUint64(g.tx.Gas())))
				gl += g.tx.Gas()
			}
			if err := b.SetMsgs(msgs...); err != nil {
				c.tags["wrapped:unbuildable:eth-ext"] = true
				return
			}
			b.SetFeeAmount(sdk.NewCoins(sdk.NewCoin(utils.BaseDenom, sdkmath.NewIntFromBigInt(fee))))
			b.SetGasLimit(gl)
			if bz, err = w2.TxCfg.TxEncoder()(b.GetTx()); err != nil {
				c.tags["wrapped:unbuildable:eth-ext"] = true
				return
			}
		}
		pre, preBal := c.snapshot(ctx, a), bals()
		preTo := snapTo(carried)
		// ---- the real ante handler on a discarded branch (error class), then the real DeliverTx
		bctx, _ := ctx.CacheContext()
		if in.Seed%3 == 0 {
			bctx = bctx.WithIsCheckTx(true)
			c.tags["mode:CheckTx"] = true
		}
		aerr := w2.sgRunAnte(bctx, bz)
		class, modelled := sgErrClass(aerr)
		res := a.DeliverTx(abci.RequestDeliverTx{Tx: bz})
		accepted := res.Code == 0
		post, postBal := c.snapshot(ctx, a), bals()
		log := res.Log
		if len(log) > 140 {
			log = log[:140]
		}
		deliver := fmt.Sprintf("code %d %s", res.Code, log)
		if len(carried) == 0 {
			// an ordinary Cosmos transaction of the signer (its sequence moves on the Cosmos route)
			who, sane := sgMoved(pre, post)
			if !sane {
				c.fail("%s (%s): more than one sequence moved, or one moved by more than 1 (%v -> %v)", what, shape, pre, post)
			}
			if who >= 0 && who != signerIdx {
				c.fail("%s (%s): executed on behalf of account %d, signed by account %d", what, shape, who, signerIdx)
			}
			if (aerr == nil) != (who >= 0) {
				c.fail("%s (%s): the ante handler says %v, the sequences went %v -> %v", what, shape, aerr, pre, post)
			}
			if who >= 0 {
				c.nAccepted++
				// the property for Cosmos / EIP-712 signed transactions: only at the signer's current sequence, at most once
				id := hex.EncodeToString(bz)
				cosmosExec[id]++
				signedOver := pre[who]
				if wr.Seq != nil {
					signedOver = *wr.Seq
				}
				if signedOver != pre[who] {
					c.fail("%s (%s): a Cosmos transaction signed over sequence %d was executed while the account's sequence was %d", what, shape, signedOver, pre[who])
				}
				if cosmosExec[id] > 1 {
					c.fail("%s (%s): ONE signature, %d executions: the very same signed Cosmos transaction (signed over sequence %d) has now been executed %d times",
						what, shape, cosmosExec[id], signedOver, cosmosExec[id])
				}
			}
			for i := range post {
				if post[i] < pre[i] {
					c.fail("%s (%s): the sequence of account %d went DOWN %d -> %d", what, shape, i, pre[i], post[i])
				}
			}
			h.Steps = append(h.Steps, sgSub{What: what + ":cosmos", Class: class, Who: who, OtherOK: modelled, SeqBefore: pre, SeqAfter: post,
				Deliver: deliver, Wrapper: shape, coq: outer, seqs: post})
			c.tags["wrapped:plain-cosmos-tx:"+wr.Route+":"+class] = true
			return
		}
		// ---- how often every carried message executed: its private recipient's balance / its contract account
		execs, _, anyExec := countExecs(what, carried, preTo, accepted)
		// ---- the property.  "The account's current sequence number" = its sequence when the carrying
		// transaction is submitted (plus its earlier messages in it), as for the Ethereum route.
		cur := append([]uint64{}, pre...)
		cat := ""
		var whos []int
		executed := []int{}
		execFor := make([]uint64, len(post))
		allowed := make([]*big.Int, len(post))
		for i := range allowed {
			allowed[i] = new(big.Int)
		}
		used := map[string]int{}
		for k, g := range carried {
			kind := "no-signer"
			switch {
			case g.rec < 0:
			case g.altered:
				kind = "forged"
			case execTotal[g.hash] > 0:
				kind = "replay"
			case g.tx.Nonce() < pre[g.rec]:
				kind = "used-nonce"
			case g.tx.Nonce() > pre[g.rec]:
				kind = "future-nonce"
			default:
				kind = "current-nonce"
			}
			if k == 0 {
				cat = kind
			}
			c.tags["wrapped:carried:"+kind] = true
			executed = append(executed, execs[g.hash])
			if used[g.hash] >= execs[g.hash] {
				continue
			}
			used[g.hash]++
			if g.rec < 0 {
				c.fail("%s (%s): %s executed although no account can be recovered from its signature", what, shape, g.label)
				continue
			}
			whos = append(whos, g.rec)
			execFor[g.rec]++
			allowed[g.rec].Add(allowed[g.rec], g.cost)
			// only at the account's then-current sequence ...
			if g.tx.Nonce() != cur[g.rec] {
				c.fail("%s (%s): the signed transaction %s (%s) was executed with nonce %d while the account's sequence was %d",
					what, shape, g.hash, g.label, g.tx.Nonce(), cur[g.rec])
			}
			cur[g.rec]++
		}
		// ... and at most once
		for _, g := range carried {
			if n, ok := execs[g.hash]; ok && n > 0 {
				before := execTotal[g.hash]
				execTotal[g.hash] += n
				delete(execs, g.hash)
				if execTotal[g.hash] > 1 {
					c.fail("%s (%s): ONE signature, %d executions: the signed transaction %s (%s, value %s), executed %d time(s) before, was executed %d more time(s) by a Cosmos transaction that merely carries it -- its recipient has been paid %d x %s",
						what, shape, execTotal[g.hash], g.hash, g.label, g.value, before, n, execTotal[g.hash], g.value)
				}
			}
		}
		if accepted && whos == nil {
			whos = []int{}
		}
		if !accepted {
			whos = nil
		}
		// nobody but the wrapper's own signer (who signed this Cosmos transaction over his current sequence, if the
		// ante handler passed) loses a sequence number or pays, unless a message of his executed
		for i := range post {
			if i == signerIdx && cosmosSigned && aerr == nil {
				continue
			}
			if post[i] != pre[i] && execFor[i] == 0 {
				c.fail("%s (%s): account %d's sequence went %d -> %d although it did not sign this Cosmos transaction and none of its messages executed",
					what, shape, i, pre[i], post[i])
			}
			if paid := new(big.Int).Sub(preBal[i], postBal[i]); paid.Cmp(allowed[i]) > 0 {
				c.fail("%s (%s): account %d paid %s, more than the messages executed on its behalf can cost (%s)", what, shape, i, paid, allowed[i])
			}
		}
		if aerr != nil && (accepted || anyExec) {
			c.fail("%s (%s): the ante handler refuses the transaction (%v) but DeliverTx says code %d, executions per carried message %v", what, shape, aerr, res.Code, executed)
		}
		who := -1
		if len(whos) > 0 {
			who = whos[0]
		}
		h.Steps = append(h.Steps, sgSub{What: what + ":wrapped:" + cat, Class: class, Who: who, OtherOK: modelled, Msgs: labels, Whos: whos, Executed: executed,
			SeqBefore: pre, SeqAfter: post, Deliver: deliver, Wrapper: shape, coqs: descs,
			wrap: fmt.Sprintf("mk_wrap %s %d %d %s", sgCoqOpt(outer), wr.Before, depth, coqBool(wr.Grant)), seqs: post})
		c.tags["wrapped:"+wr.Route+":"+class] = true
		c.tags[fmt.Sprintf("wrapped:depth%d", depth)] = true
		if wr.Before > 0 {
			c.tags["wrapped:behind-plain-msgs"] = true
		}
		if len(wr.Inner) > 1 {
			c.tags["wrapped:several-inner-msgs"] = true
		}
		for _, g := range carried {
			if g.rec != signerIdx {
				c.tags["wrapped:by-another-signer"] = true
			}
		}
		if accepted {
			c.tags["wrapped:ACCEPTED"] = true
		}
	}

	committed := false
	for t, txs := range in.Txs {
		specs := txs.Msgs
		if in.Boundary > 0 && t == in.Boundary {
			a.EndBlock(abci.RequestEndBlock{Height: hdr.Height})
			a.Commit()
			committed = true
			hdr.Height++
			hdr.Time = hdr.Time.Add(5 * time.Second)
			a.BeginBlock(abci.RequestBeginBlock{Header: hdr})
			ctx = a.BaseApp.NewContext(false, hdr)
			c.tags["block-boundary"] = true
		}
		if txs.Op != nil {
			opStep(t, txs.Op)
			continue
		}
		if wr := txs.Wrap; wr != nil {
			if !wr.isEthRoute() {
				wrapped(t, wr)
				continue
			}
			specs = txs.carried() // the Ethereum extension option around nothing but MsgEthereumTx IS the Ethereum route
		}
		if len(specs) == 0 {
			c.tags["multi:bad-script"] = true
			continue
		}
		msgs := []*sgSigned{}
		sdkMsgs := []sdk.Msg{}
		labels, descs := []string{}, []string{}
		noncanon, fromTexts := false, false
		for _, sp := range specs {
			g := get(sp)
			msgs = append(msgs, g)
			sdkMsgs = append(sdkMsgs, g.ethMsg())
			labels = append(labels, g.label+" "+g.hash)
			descs = append(descs, g.desc)
			noncanon = noncanon || g.noncanon
			fromTexts = fromTexts || g.claimFrom != ""
			if g.forged {
				c.tags["forged:data:"+map[bool]string{true: "altered", false: "as-signed"}[g.altered]+":hash:"+
					map[bool]string{true: "own", false: "foreign"}[g.claimHash == g.tx.Hash().Hex()]+":from:"+map[bool]string{true: "empty", false: "set"}[g.claimFrom == ""]] = true
			}
		}
		what := fmt.Sprintf("tx%d", t)
		// /repo's own builder of (multi-message) Ethereum transactions; nil key = the messages are signed already
		ctxTx, err := utiltx.PrepareEthTx(w2.TxCfg, a, nil, sdkMsgs...)
		if err != nil {
			c.fail("%s: cannot build: %v", what, err)
			continue
		}
		if fromTexts { // PrepareEthTx clears every From text: the forged ones are written afterwards
			for k, g := range msgs {
				sdkMsgs[k].(*evmtypes.MsgEthereumTx).From = g.claimFrom
			}
			b, ok := ctxTx.(client.TxBuilder)
			if !ok || b.SetMsgs(sdkMsgs...) != nil {
				c.fail("%s: cannot build the envelope with From texts", what)
				continue
			}
		}
		bz, err := w2.TxCfg.TxEncoder()(ctxTx)
		if err != nil {
			c.fail("%s: cannot encode: %v", what, err)
			continue
		}
		pre, preBal := c.snapshot(ctx, a), bals()
		preTo := snapTo(msgs)
		if txs.Check {
			// merely checked: the messages pass through ValidateBasic and the ante handler in CheckTx mode (a discarded
			// branch of the deliver state, where the accounts are) and through the application's real CheckTx; nothing is
			// delivered.  The process has now seen them; the state has not changed, the history the model sees neither.
			bctx, _ := ctx.CacheContext()
			aerr := w2.sgRunAnte(bctx.WithIsCheckTx(true), bz)
			class, _ := sgErrClass(aerr)
			c.tags["checked-only:ante:"+class] = true
			if committed { // the check state is a branch of the last COMMITTED state: before the first commit it is empty
				res := a.CheckTx(abci.RequestCheckTx{Tx: bz, Type: abci.CheckTxType_New})
				c.tags[fmt.Sprintf("checked-only:CheckTx:code%d", res.Code)] = true
			}
			post, postBal := c.snapshot(ctx, a), bals()
			for i := range post {
				if post[i] != pre[i] || postBal[i].Cmp(preBal[i]) != 0 {
					c.fail("%s: a transaction that was only checked changed the deliver state: account %d sequence %d -> %d, balance %s -> %s", what, i, pre[i], post[i], preBal[i], postBal[i])
				}
			}
			continue
		}
		// ---- what the property says about this transaction (walk over the messages with the sequences as they are)
		bad, cat := "", "in-order"
		{
			cur := append([]uint64{}, pre...)
			seen := map[string]bool{}
			for k, g := range msgs {
				switch {
				case g.rec < 0:
					bad, cat = fmt.Sprintf("message %d (%s) carries no valid signature", k, g.label), "no-signer"
				case seen[g.hash]:
					bad, cat = fmt.Sprintf("message %d is the signed transaction %s (%s) a second time", k, g.hash, g.label), "duplicate-in-tx"
				case execTotal[g.hash] > 0:
					bad, cat = fmt.Sprintf("message %d replays the signed transaction %s (%s), executed in an earlier transaction", k, g.hash, g.label), "replay"
				case g.spec.Mut && preBal[g.rec].Cmp(g.cost) < 0:
					bad, cat = fmt.Sprintf("message %d (%s) was altered after signing; the account its signature now recovers to cannot pay", k, g.label), "altered"
				case g.altered && preBal[g.rec].Cmp(g.cost) < 0:
					bad, cat = fmt.Sprintf("message %d (%s) carries Data nobody signed: its V, R, S recover to an account that is none of the senders and cannot pay; what its Hash / From texts say authorises nothing", k, g.label), "forged"
				case g.tx.Nonce() < cur[g.rec]:
					bad, cat = fmt.Sprintf("message %d (%s) uses nonce %d, already used: the account's sequence at that point is %d", k, g.label, g.tx.Nonce(), cur[g.rec]), "used-nonce"
				case g.tx.Nonce() > cur[g.rec]:
					bad, cat = fmt.Sprintf("message %d (%s) has nonce %d from the future: the account's sequence at that point is %d", k, g.label, g.tx.Nonce(), cur[g.rec]), "future-nonce"
				}
				if bad != "" {
					break
				}
				seen[g.hash] = true
				cur[g.rec]++
			}
		}
		// ---- the real ante handler on a discarded branch (error class), then the real DeliverTx
		// (one case in three runs the ante handler in CheckTx mode: the nonce rule is the same in every mode)
		bctx, _ := ctx.CacheContext()
		if in.Seed%3 == 0 {
			bctx = bctx.WithIsCheckTx(true)
			c.tags["mode:CheckTx"] = true
		}
		aerr := w2.sgRunAnte(bctx, bz)
		class, modelled := sgErrClass(aerr)
		res := a.DeliverTx(abci.RequestDeliverTx{Tx: bz})
		accepted := res.Code == 0
		post, postBal := c.snapshot(ctx, a), bals()
		// how often every signed message executed: its private recipient's balance / its contract account
		execs, created, anyExec := countExecs(what, msgs, preTo, accepted)
		var whos []int
		executed := []int{}
		{
			used := map[string]int{}
			cur := append([]uint64{}, pre...)
			for _, g := range msgs {
				executed = append(executed, execs[g.hash])
				if used[g.hash] >= execs[g.hash] {
					continue
				}
				used[g.hash]++
				if g.rec < 0 {
					c.fail("%s: %s executed although no account can be recovered from its signature", what, g.label)
					continue
				}
				whos = append(whos, g.rec)
				// the property: only at the account's then-current sequence ...
				if g.tx.Nonce() != cur[g.rec] && g.altered {
					c.fail("%s: %s was EXECUTED (its recipient was paid): Data nobody signed -- the V, R, S in it were made over other Data and recover, over this Data, to an account that is none of the senders",
						what, g.label)
				} else if g.tx.Nonce() != cur[g.rec] {
					c.fail("%s: the signed transaction %s (%s) was executed with nonce %d while the account's sequence was %d",
						what, g.hash, g.label, g.tx.Nonce(), cur[g.rec])
				}
				cur[g.rec]++
			}
			if accepted && whos == nil {
				whos = []int{}
			}
			if !accepted {
				whos = nil
			}
		}
		// ... and at most once
		for _, g := range msgs {
			if n, ok := execs[g.hash]; ok && n > 0 {
				execTotal[g.hash] += n
				delete(execs, g.hash)
				if execTotal[g.hash] > 1 {
					c.fail("%s: ONE signature, %d executions: the signed transaction %s (%s, value %s) has now been executed %d times -- its recipient was paid %d x %s",
						what, execTotal[g.hash], g.hash, g.label, g.value, execTotal[g.hash], execTotal[g.hash], g.value)
				}
			}
		}
		seqMoved, balMoved := false, false
		for i := range post {
			seqMoved = seqMoved || post[i] != pre[i]
			balMoved = balMoved || postBal[i].Cmp(preBal[i]) != 0
		}
		if (aerr == nil) != accepted {
			c.fail("%s: the ante handler says %v, DeliverTx says code %d (%s)", what, aerr, res.Code, res.Log)
		}
		if !accepted && (seqMoved || balMoved || anyExec) {
			c.fail("%s: DeliverTx failed (code %d) but left effects: sequences %v -> %v, messages executed %v", what, res.Code, pre, post, executed)
		}
		if bad != "" {
			// a replayed / out-of-order / altered message: the whole Cosmos transaction fails, without effect
			if accepted {
				c.fail("%s [%s]: %s -- the whole Cosmos transaction must fail without effect, but DeliverTx accepted it (code 0): sequences %v -> %v, executions per message %v",
					what, strings.Join(labels, ", "), bad, pre, post, executed)
			}
		} else {
			if !accepted && noncanon {
				// correctly signed Data at the current sequence under a Hash / From text that is not its own: the property
				// does not say that such a message must be served; had it been, everything below applies
				c.tags["forged:signed-data-under-foreign-texts:refused"] = true
			} else if !accepted {
				c.fail("%s [%s]: correctly signed messages, each with its sender's current sequence, were rejected: code %d %s",
					what, strings.Join(labels, ", "), res.Code, res.Log)
			} else {
				c.nAccepted++
				for k, e := range executed {
					if e != 1 {
						c.fail("%s: message %d (%s) of an accepted in-order transaction executed %d times", what, k, msgs[k].label, e)
					}
				}
			}
		}
		if accepted {
			// nobody pays for messages that did not execute on his behalf; every sequence moves by the number of those that did
			allowed := make([]*big.Int, len(post))
			cnt := make([]uint64, len(post))
			for i := range allowed {
				allowed[i] = new(big.Int)
			}
			for _, who := range whos {
				cnt[who]++
			}
			used := map[string]int{}
			for k, g := range msgs {
				if g.rec >= 0 && used[g.hash] < executed[k] {
					used[g.hash]++
					allowed[g.rec].Add(allowed[g.rec], g.cost)
				}
			}
			for i := range post {
				if post[i] != pre[i]+cnt[i] {
					again := []string{}
					for _, g := range msgs {
						if g.rec == i && g.tx.Nonce() >= post[i] {
							again = append(again, g.label+" "+g.hash)
						}
					}
					hint := ""
					if len(again) > 0 {
						hint = fmt.Sprintf(": the executed message(s) [%s] carry a nonce the account's sequence has not passed and can be delivered a second time", strings.Join(again, ", "))
					}
					c.fail("%s [%s]: account %d's sequence went %d -> %d while %d message(s) executed on its behalf (must be %d)%s",
						what, strings.Join(labels, ", "), i, pre[i], post[i], cnt[i], pre[i]+cnt[i], hint)
				}
				if paid := new(big.Int).Sub(preBal[i], postBal[i]); paid.Cmp(allowed[i]) > 0 {
					c.fail("%s: account %d paid %s, more than the messages executed on its behalf can cost (%s)", what, i, paid, allowed[i])
				}
			}
		}
		who := -1
		if len(whos) > 0 {
			who = whos[0]
		}
		log := res.Log
		if len(log) > 140 {
			log = log[:140]
		}
		var flags []string
		for _, g := range msgs {
			if g.create != "" {
				flags = make([]string, len(msgs))
				break
			}
		}
		for k, g := range msgs {
			if flags != nil {
				flags[k] = "no_creation"
				if g.create != "" {
					flags[k] = fmt.Sprintf("(mk_cflag true %s)", coqBool(created[g.hash]))
					c.tags[fmt.Sprintf("multi:creation-at-%d-of-%d", k, len(msgs))] = true
				}
			}
		}
		h.Steps = append(h.Steps, sgSub{What: what + ":" + cat, Class: class, Who: who, OtherOK: modelled, Msgs: labels, Whos: whos, Executed: executed,
			SeqBefore: pre, SeqAfter: post, Deliver: fmt.Sprintf("code %d %s", res.Code, log), coqs: descs, flags: flags, seqs: post})
		c.tags["multi:"+cat+":"+class] = true
		c.tags[fmt.Sprintf("multi:%d-msgs", len(msgs))] = true
	}
	c.hists = append(c.hists, h)
}

// ---------------------------------------------------------------- driver
func sgRunCase(id string, in sgInput) Case {
	c := &sgCase{tags: map[string]bool{}, bodies: map[string]int{}}
	r := NewRng(in.Seed)
	switch in.Kind {
	case "blocks":
		e := forkEnv() // only to share the tx config / signer
		c.tags["kind:blocks"] = true
		sgWorldOf(e).runBlocks(c, r)
	case "multi", "wrapped", "accountops", "forged":
		e := forkEnv() // only to share the tx config / signer
		c.tags["kind:"+in.Kind] = true
		sgWorldOf(e).runMulti(c, &in)
	default:
		e := forkEnv()
		w := sgWorldOf(e)
		c.tags["route:"+in.Route] = true
		// the ante handler runs in DeliverTx mode, or (one case in three) in CheckTx mode, where
		// the sender's account is created on the fly and the node's own fee floor applies
		if in.Seed%3 == 0 {
			e.Ctx = e.Ctx.WithIsCheckTx(true)
			c.tags["mode:CheckTx"] = true
		} else {
			c.tags["mode:DeliverTx"] = true
		}
		w.ZeroFee = false
		if in.ZeroFee {
			fp := e.App.FeeMarketKeeper.GetParams(e.Ctx)
			fp.NoBaseFee = true
			fp.MinGasPrice = sdkmath.LegacyZeroDec()
			if err := e.App.FeeMarketKeeper.SetParams(e.Ctx, fp); err == nil {
				w.ZeroFee = true
				c.tags["fee-regime:zero-fee-admitted"] = true
			}
		}
		if strings.HasPrefix(in.Route, "eth-") {
			w.runEthMutations(c, e, r, in.Route)
		} else {
			w.runCosmosMutations(c, e, r, in.Route)
		}
	}
	obs := []interface{}{}
	nsub := 0
	for _, h := range c.hists {
		for _, s := range h.Steps {
			obs = append(obs, s)
			nsub++
		}
	}
	tl := []string{}
	for t := range c.tags {
		tl = append(tl, t)
	}
	sort.Strings(tl)
	kb, _ := json.Marshal(in)
	return Case{
		ID: id, Kind: in.Kind, Input: in, Obs: obs, Coq: c.coq(), CoqList: "cases",
		OracleOK: len(c.oracle) == 0, OracleMsg: strings.Join(c.oracle, "; "),
		Nontrivial: c.nAccepted > 0 && nsub > 3, Key: string(kb), Tags: tl,
	}
}

func sigsDriver(cfg Config, out *Out) error {
	if cfg.Replay != "" {
		i := 0
		return readReplayInputs(cfg.Replay, func(raw json.RawMessage) error {
			var in sgInput
			if err := json.Unmarshal(raw, &in); err != nil {
				return err
			}
			out.Emit(sgRunCase(fmt.Sprintf("replay-%d", i), in))
			i++
			return nil
		})
	}
	r := NewRng(cfg.Seed)
	for i := 0; i < cfg.N; i++ {
		in := sgInput{Seed: r.U64()}
		switch i % 6 {
		case 5: // one case in six is a block history of single-message transactions of all routes
			in.Kind = "blocks"
		case 2: // one in six a history of multi-message Ethereum transactions
			in.Kind = "multi"
		default: // four in six: one signed transaction of one route and all its mutations
			in.Kind = "mutations"
			in.Route = sgRoutes[(i-(i+3)/6-(i+0)/6)%len(sgRoutes)]
			in.ZeroFee = in.Seed%5 == 3
			if i%12 == 4 { // ... of which one in eight gives way to a history with wrapped submissions
				in.Kind, in.Route = "wrapped", ""
			}
			if i%12 == 10 { // ... and one in eight to a history with account-type operations and re-deliveries
				in.Kind, in.Route = "accountops", ""
			}
			if i%12 == 7 { // ... and one in eight to a history with messages forged from validated / executed transactions
				in.Kind, in.Route = "forged", ""
			}
		}
		out.Emit(sgRunCase(fmt.Sprintf("s%d-%d", cfg.Seed, i), in))
	}
	return nil
}

var _ = bytes.Equal
