package main

// Whole-application helper shared by the drivers "genesis" (C19) and "restart"
// (C20): a real app.Haqq on a database chosen by the caller, a deterministic
// genesis (one bonded validator, funded Ethereum-key accounts), real blocks
// (BeginBlock / DeliverTx / EndBlock / Commit), signed cosmos and ethereum
// transactions, and direct message execution inside the open block.

import (
	"crypto/sha256"
	"encoding/json"
	"fmt"
	"math/big"
	"sort"
	"strings"
	"time"

	sdkmath "cosmossdk.io/math"
	dbm "github.com/cometbft/cometbft-db"
	abci "github.com/cometbft/cometbft/abci/types"
	cmted25519 "github.com/cometbft/cometbft/crypto/ed25519"
	"github.com/cometbft/cometbft/libs/log"
	tmproto "github.com/cometbft/cometbft/proto/tendermint/types"
	tmtypes "github.com/cometbft/cometbft/types"
	"github.com/cosmos/cosmos-sdk/baseapp"
	"github.com/cosmos/cosmos-sdk/client"
	simtestutil "github.com/cosmos/cosmos-sdk/testutil/sims"
	sdk "github.com/cosmos/cosmos-sdk/types"
	"github.com/cosmos/cosmos-sdk/types/module"
	"github.com/cosmos/cosmos-sdk/types/tx/signing"
	authtypes "github.com/cosmos/cosmos-sdk/x/auth/types"
	banktypes "github.com/cosmos/cosmos-sdk/x/bank/types"
	slashingtypes "github.com/cosmos/cosmos-sdk/x/slashing/types"
	upgradetypes "github.com/cosmos/cosmos-sdk/x/upgrade/types"
	"github.com/ethereum/go-ethereum/common"
	ethtypes "github.com/ethereum/go-ethereum/core/types"
	"github.com/ethereum/go-ethereum/crypto"

	"github.com/haqq-network/haqq/app"
	"github.com/haqq-network/haqq/crypto/ethsecp256k1"
	"github.com/haqq-network/haqq/encoding"
	hvtx "github.com/haqq-network/haqq/testutil/tx"
	haqqtypes "github.com/haqq-network/haqq/types"
	"github.com/haqq-network/haqq/utils"
	evmtypes "github.com/haqq-network/haqq/x/evm/types"
)

// ---------------------------------------------------------------- accounts
type cacct struct {
	Priv *ethsecp256k1.PrivKey
	Acc  sdk.AccAddress
	Eth  common.Address
}

var cacctCache = map[int]cacct{}

// chainAcct(i): deterministic Ethereum-key account number i.
func chainAcct(i int) cacct {
	if a, ok := cacctCache[i]; ok {
		return a
	}
	h := sha256.Sum256([]byte(fmt.Sprintf("hv-chain-account-%d", i)))
	priv := &ethsecp256k1.PrivKey{Key: h[:]}
	k, err := priv.ToECDSA()
	if err != nil {
		panic(err)
	}
	eth := crypto.PubkeyToAddress(k.PublicKey)
	a := cacct{Priv: priv, Acc: sdk.AccAddress(eth.Bytes()), Eth: eth}
	cacctCache[i] = a
	return a
}

// plainAddr(i): deterministic address without a key (recipient-only accounts,
// vesting accounts created by a funder).
func plainAddr(tag string, i int) sdk.AccAddress {
	h := sha256.Sum256([]byte(fmt.Sprintf("hv-plain-%s-%d", tag, i)))
	return sdk.AccAddress(h[:20])
}

// ---------------------------------------------------------------- chain
const chainNAccts = 6

var chainGenesisTime = time.Unix(1_700_000_000, 0).UTC()

type Chain struct {
	App      *app.Haqq
	DB       dbm.DB
	TxCfg    client.TxConfig
	ValCons  []byte // consensus address of the only validator
	Height   int64  // last committed height
	Time     time.Time
	AppHash  []byte
	Hdr      tmproto.Header
	open     bool
	EthChain *big.Int
	Tape     *txTape // optional: record / replay of the transaction bytes of every block
	Resp     []abci.ResponseDeliverTx // responses of the open (or last) block
	Begun    abci.ResponseBeginBlock
}

// txTape makes several nodes execute byte-identical transactions: the first node
// records what it delivers; the others build their transactions from their own
// state with the same code, report when the bytes differ, and deliver the recorded ones.
type txTape struct {
	Replay   bool
	Txs      [][]byte
	Pos      int
	Diverged []string
}

var chainEnc = encoding.MakeConfig(app.ModuleBasics)

// openApp constructs an application on db (restart when db already holds state).
func openApp(db dbm.DB) *app.Haqq {
	a := app.NewHaqq(
		log.NewNopLogger(), db, nil, true, map[int64]bool{},
		app.DefaultNodeHome, 0, chainEnc,
		simtestutil.NewAppOptionsWithFlagHome(app.DefaultNodeHome),
		baseapp.SetChainID(chainID),
	)
	// "a binary that knows the upgrades hvnoop0..": no-op handlers, registered on every instance
	for i := 0; i < hvUpgradeNames; i++ {
		a.UpgradeKeeper.SetUpgradeHandler(fmt.Sprintf("hvnoop%d", i),
			func(_ sdk.Context, _ upgradetypes.Plan, vm module.VersionMap) (module.VersionMap, error) { return vm, nil })
	}
	return a
}

func chainValidator() (*tmtypes.Validator, []byte) {
	pk := cmted25519.GenPrivKeyFromSecret([]byte("hv-validator")).PubKey()
	v := tmtypes.NewValidator(pk, 1)
	return v, pk.Address()
}

var chainConsensusParams = &tmproto.ConsensusParams{
	Block:     &tmproto.BlockParams{MaxBytes: 2000000, MaxGas: 40_000_000},
	Evidence:  &tmproto.EvidenceParams{MaxAgeNumBlocks: 302400, MaxAgeDuration: 504 * time.Hour, MaxBytes: 10000},
	Validator: &tmproto.ValidatorParams{PubKeyTypes: []string{tmtypes.ABCIPubKeyTypeEd25519}},
}

// chainGenesis: default genesis + one bonded validator (delegated by account 0)
// + chainNAccts funded EthAccounts.  mutate may edit module genesis states.
func chainGenesis(a *app.Haqq, mutate func(gs haqqtypes.GenesisState)) []byte {
	val, _ := chainValidator()
	valSet := tmtypes.NewValidatorSet([]*tmtypes.Validator{val})
	accs := []authtypes.GenesisAccount{}
	bals := []banktypes.Balance{}
	amt, _ := sdkmath.NewIntFromString("1000000000000000000000000000") // 1e27 aISLM = 1e9 ISLM
	for i := 0; i < chainNAccts; i++ {
		ca := chainAcct(i)
		accs = append(accs, &haqqtypes.EthAccount{
			BaseAccount: authtypes.NewBaseAccount(ca.Acc, nil, 0, 0),
			CodeHash:    common.BytesToHash(evmtypes.EmptyCodeHash).Hex(),
		})
		bals = append(bals, banktypes.Balance{Address: ca.Acc.String(), Coins: sdk.NewCoins(sdk.NewCoin(utils.BaseDenom, amt))})
	}
	gs := app.GenesisStateWithValSet(a, app.NewDefaultGenesisState(), valSet, accs, bals...)
	// a validator bonded at genesis gets no signing info from the staking hooks: provide it
	// (the blocks carry the validator's vote, as on a live chain)
	cons := sdk.ConsAddress(val.Address)
	sl := slashingtypes.DefaultGenesisState()
	sl.SigningInfos = []slashingtypes.SigningInfo{{Address: cons.String(),
		ValidatorSigningInfo: slashingtypes.NewValidatorSigningInfo(cons, 0, 0, time.Unix(0, 0).UTC(), false, 0)}}
	gs[slashingtypes.ModuleName] = a.AppCodec().MustMarshalJSON(sl)
	if mutate != nil {
		mutate(gs)
	}
	bz, err := json.Marshal(gs)
	if err != nil {
		panic(err)
	}
	return bz
}

// newChain: fresh application on db, InitChain with the deterministic genesis.
func newChain(db dbm.DB, mutate func(gs haqqtypes.GenesisState)) *Chain {
	return newChainCP(db, chainConsensusParams, mutate)
}

// newChainCP: the same with consensus parameters chosen by the caller (block gas limit).
func newChainCP(db dbm.DB, cp *tmproto.ConsensusParams, mutate func(gs haqqtypes.GenesisState)) *Chain {
	a := openApp(db)
	_, cons := chainValidator()
	a.InitChain(abci.RequestInitChain{
		ChainId: chainID, Time: chainGenesisTime, Validators: []abci.ValidatorUpdate{},
		ConsensusParams: cp, AppStateBytes: chainGenesis(a, mutate), InitialHeight: 1,
	})
	ec, err := haqqtypes.ParseChainID(chainID)
	if err != nil {
		panic(err)
	}
	return &Chain{App: a, DB: db, TxCfg: chainEnc.TxConfig, ValCons: cons, Height: 0, Time: chainGenesisTime, EthChain: ec}
}

// attach wraps an application instance that was opened on a database holding a
// committed chain (restart) so that it can execute the following blocks.
func (c *Chain) attach(a *app.Haqq) *Chain {
	n := *c
	n.App = a
	n.open = false
	return &n
}

func (c *Chain) header(height int64, t time.Time) tmproto.Header {
	return tmproto.Header{
		ChainID: chainID, Height: height, Time: t, ProposerAddress: c.ValCons, AppHash: c.AppHash,
	}
}

// Begin opens block Height+1 at Time+dt.
func (c *Chain) Begin(dt time.Duration) abci.ResponseBeginBlock {
	if c.open {
		panic("block already open")
	}
	c.Hdr = c.header(c.Height+1, c.Time.Add(dt))
	c.Resp = nil
	res := c.App.BeginBlock(abci.RequestBeginBlock{
		Header: c.Hdr,
		LastCommitInfo: abci.CommitInfo{Votes: []abci.VoteInfo{{
			Validator: abci.Validator{Address: c.ValCons, Power: 1}, SignedLastBlock: true}}},
	})
	c.open = true
	c.Begun = res
	return res
}

// Ctx is the deliver-state context of the open block: writes land in the block
// and are committed with it.
func (c *Chain) Ctx() sdk.Context {
	return c.App.BaseApp.NewContext(false, c.Hdr).WithGasMeter(sdk.NewInfiniteGasMeter())
}

// QueryCtx is a context over the committed state (check state) with the header
// of the last committed block.
func (c *Chain) QueryCtx() sdk.Context {
	return c.App.BaseApp.NewContext(true, c.header(c.Height, c.Time)).WithGasMeter(sdk.NewInfiniteGasMeter())
}

func (c *Chain) Deliver(txBytes []byte) abci.ResponseDeliverTx {
	if t := c.Tape; t != nil {
		if !t.Replay {
			t.Txs = append(t.Txs, txBytes)
		} else {
			if t.Pos >= len(t.Txs) {
				t.Diverged = append(t.Diverged, fmt.Sprintf("height %d: this node builds a transaction the recording node did not build", c.Hdr.Height))
			} else {
				if string(t.Txs[t.Pos]) != string(txBytes) {
					t.Diverged = append(t.Diverged, fmt.Sprintf("height %d tx %d: transaction built from this node's state differs from the recorded bytes", c.Hdr.Height, t.Pos))
				}
				txBytes = t.Txs[t.Pos]
			}
			t.Pos++
		}
	}
	res := c.App.DeliverTx(abci.RequestDeliverTx{Tx: txBytes})
	c.Resp = append(c.Resp, res)
	return res
}

// End closes the open block: EndBlock + Commit.
func (c *Chain) End() (abci.ResponseEndBlock, []byte) {
	if !c.open {
		panic("no open block")
	}
	eb := c.App.EndBlock(abci.RequestEndBlock{Height: c.Hdr.Height})
	cm := c.App.Commit()
	c.Height, c.Time, c.AppHash, c.open = c.Hdr.Height, c.Hdr.Time, cm.Data, false
	return eb, cm.Data
}

// RunMsg executes one message inside the open block with baseapp's
// all-or-nothing semantics (no ante handler: used where signing is beside the point).
func (c *Chain) RunMsg(msg sdk.Msg) (err error) {
	if vb, ok := msg.(interface{ ValidateBasic() error }); ok {
		if err := vb.ValidateBasic(); err != nil {
			return err
		}
	}
	h := c.App.MsgServiceRouter().Handler(msg)
	if h == nil {
		return fmt.Errorf("no handler for %T", msg)
	}
	cctx, write := c.Ctx().CacheContext()
	defer func() {
		if r := recover(); r != nil {
			err = fmt.Errorf("panic: %v", r)
		}
	}()
	if _, err = h(cctx, msg); err == nil {
		write()
	}
	return err
}

// Direct runs f on a cached deliver context and writes back on success.
func (c *Chain) Direct(f func(ctx sdk.Context) error) (err error) {
	cctx, write := c.Ctx().CacheContext()
	defer func() {
		if r := recover(); r != nil {
			err = fmt.Errorf("panic: %v", r)
		}
	}()
	if err = f(cctx); err == nil {
		write()
	}
	return err
}

// BaseFee of the open block (nil when the fee market is off).
func (c *Chain) BaseFee() *big.Int {
	bf := c.App.FeeMarketKeeper.GetBaseFee(c.Ctx())
	if bf == nil {
		return big.NewInt(0)
	}
	return bf
}

// CosmosTx builds and signs (SIGN_MODE_DIRECT) a cosmos transaction of account i.
func (c *Chain) CosmosTx(ctx sdk.Context, i int, gas uint64, msgs ...sdk.Msg) ([]byte, error) {
	price := sdkmath.NewIntFromBigInt(new(big.Int).Add(c.App.FeeMarketKeeper.GetParams(ctx).BaseFee.BigInt(), big.NewInt(7)))
	t, err := hvtx.PrepareCosmosTx(ctx, c.App, hvtx.CosmosTxArgs{
		TxCfg: c.TxCfg, Priv: chainAcct(i).Priv, ChainID: chainID, Gas: gas, GasPrice: &price, Msgs: msgs,
	}, signing.SignMode_SIGN_MODE_DIRECT)
	if err != nil {
		return nil, err
	}
	return c.TxCfg.TxEncoder()(t)
}

// EthTx builds and signs an Ethereum transaction of account i (to == nil: create).
func (c *Chain) EthTx(ctx sdk.Context, i int, to *common.Address, value *big.Int, data []byte, gas uint64, nonceInc uint64) ([]byte, common.Hash, error) {
	ca := chainAcct(i)
	nonce := c.App.EvmKeeper.GetNonce(ctx, ca.Eth) + nonceInc
	bf := c.App.FeeMarketKeeper.GetParams(ctx).BaseFee.BigInt()
	cap := new(big.Int).Add(new(big.Int).Mul(bf, big.NewInt(2)), big.NewInt(1_000_000_000))
	args := &evmtypes.EvmTxArgs{
		ChainID: c.EthChain, Nonce: nonce, To: to, Amount: value, GasLimit: gas,
		GasFeeCap: cap, GasTipCap: big.NewInt(1), Input: data, Accesses: &ethtypes.AccessList{},
	}
	msg := evmtypes.NewTx(args)
	msg.From = ca.Eth.Hex()
	if err := msg.Sign(ethtypes.LatestSignerForChainID(c.EthChain), hvtx.NewSigner(ca.Priv)); err != nil {
		return nil, common.Hash{}, err
	}
	t, err := hvtx.PrepareEthTx(c.TxCfg, c.App, nil, msg)
	if err != nil {
		return nil, common.Hash{}, err
	}
	bz, err := c.TxCfg.TxEncoder()(t)
	return bz, msg.AsTransaction().Hash(), err
}

// deployInit wraps runtime code into init code that returns it.
func deployInit(code []byte) []byte {
	// PUSH2 len DUP1 PUSH1 off PUSH1 0 CODECOPY PUSH1 0 RETURN  (12 bytes header)
	hdr := []byte{0x61, byte(len(code) >> 8), byte(len(code)), 0x80, 0x60, 12, 0x60, 0, 0x39, 0x60, 0, 0xf3}
	return append(hdr, code...)
}

// ---------------------------------------------------------------- canonical JSON
// canonJSON re-encodes a JSON document with object keys sorted (encoding/json
// sorts map keys) and numbers kept verbatim.
func canonJSON(raw []byte) (string, error) {
	dec := json.NewDecoder(strings.NewReader(string(raw)))
	dec.UseNumber()
	var v interface{}
	if err := dec.Decode(&v); err != nil {
		return "", err
	}
	out, err := json.Marshal(v)
	return string(out), err
}

// jsonPathsDiff lists the JSON paths at which a and b differ (both canonical).
func jsonPathsDiff(a, b string, limit int) []string {
	var va, vb interface{}
	da := json.NewDecoder(strings.NewReader(a))
	da.UseNumber()
	db := json.NewDecoder(strings.NewReader(b))
	db.UseNumber()
	_ = da.Decode(&va)
	_ = db.Decode(&vb)
	out := []string{}
	var walk func(p string, x, y interface{})
	walk = func(p string, x, y interface{}) {
		if len(out) >= limit {
			return
		}
		switch xv := x.(type) {
		case map[string]interface{}:
			yv, ok := y.(map[string]interface{})
			if !ok {
				out = append(out, p)
				return
			}
			keys := map[string]bool{}
			for k := range xv {
				keys[k] = true
			}
			for k := range yv {
				keys[k] = true
			}
			ks := []string{}
			for k := range keys {
				ks = append(ks, k)
			}
			sort.Strings(ks)
			for _, k := range ks {
				xe, okx := xv[k]
				ye, oky := yv[k]
				if !okx || !oky {
					out = append(out, p+"."+k)
					continue
				}
				walk(p+"."+k, xe, ye)
			}
		case []interface{}:
			yv, ok := y.([]interface{})
			if !ok || len(xv) != len(yv) {
				out = append(out, fmt.Sprintf("%s[len %d vs %d]", p, len(xv), lenOf(y)))
				return
			}
			for i := range xv {
				walk(fmt.Sprintf("%s[%d]", p, i), xv[i], yv[i])
			}
		default:
			if fmt.Sprint(x) != fmt.Sprint(y) {
				out = append(out, fmt.Sprintf("%s: %v -> %v", p, trunc(fmt.Sprint(x), 60), trunc(fmt.Sprint(y), 60)))
			}
		}
	}
	walk("", va, vb)
	return out
}

func lenOf(y interface{}) int {
	if l, ok := y.([]interface{}); ok {
		return len(l)
	}
	return -1
}

func trunc(s string, n int) string {
	if len(s) > n {
		return s[:n] + "…"
	}
	return s
}
