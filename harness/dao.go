package main

// Driver "dao" (property C12): random histories of fund / transfer-ownership
// messages through the application's message router on a real app.

import (
	"encoding/json"
	"errors"
	"fmt"
	"math/big"
	"sort"
	"strings"

	"cosmossdk.io/math"
	sdk "github.com/cosmos/cosmos-sdk/types"
	sdkerrors "github.com/cosmos/cosmos-sdk/types/errors"
	authtypes "github.com/cosmos/cosmos-sdk/x/auth/types"

	"github.com/haqq-network/haqq/testutil"
	ucdaokeeper "github.com/haqq-network/haqq/x/ucdao/keeper"
	ucdaotypes "github.com/haqq-network/haqq/x/ucdao/types"
)

func init() { register("dao", daoDriver) }

const (
	daoNA = 4
	daoND = 4
)

// index order = string order, so sorted sdk.Coins are sorted by index too.
var daoDenoms = []string{"aISLM", "aLIQUID1", "aLIQUID7", "uatom"} // uatom is not allowed in the DAO

type daoCoin struct {
	D int
	V *big.Int
}

func (c daoCoin) MarshalJSON() ([]byte, error) {
	return json.Marshal([]interface{}{c.D, c.V.String()})
}
func (c *daoCoin) UnmarshalJSON(b []byte) error {
	var raw []json.RawMessage
	if err := json.Unmarshal(b, &raw); err != nil {
		return err
	}
	if len(raw) != 2 {
		return fmt.Errorf("coin")
	}
	var s string
	if err := json.Unmarshal(raw[0], &c.D); err != nil {
		return err
	}
	if err := json.Unmarshal(raw[1], &s); err != nil {
		return err
	}
	v, ok := new(big.Int).SetString(s, 10)
	if !ok {
		return fmt.Errorf("bad int %q", s)
	}
	c.V = v
	return nil
}

type daoOp struct {
	Op    string    `json:"op"` // mint enable fund tall tratio tamt
	A     int       `json:"a"`
	N     int       `json:"n"`
	B     bool      `json:"b,omitempty"`
	R     string    `json:"r,omitempty"` // ratio in 1e-18 units
	Coins []daoCoin `json:"coins,omitempty"`
}

type daoInput struct {
	Ops []daoOp `json:"ops"`
}

type daoSnap struct {
	Bal     [daoNA][daoND]*big.Int
	Bank    [daoNA][daoND]*big.Int
	Total   [daoND]*big.Int
	Mod     [daoND]*big.Int
	Holders []int
	Stray   string
}

type daoStepObs struct {
	Res     int        `json:"res"`
	Err     string     `json:"err,omitempty"`
	Bal     [][]string `json:"bal"`
	Total   [][]string `json:"total"`
	Holders []int      `json:"holders"`
	Mod     [][]string `json:"mod"`
	Bank    [][]string `json:"bank"`
}

func daoErrCode(err error) int {
	switch {
	case err == nil:
		return 0
	case errors.Is(err, ucdaotypes.ErrModuleDisabled):
		return 1
	case errors.Is(err, ucdaotypes.ErrInvalidDenom):
		return 2
	case errors.Is(err, ucdaotypes.ErrInsufficientFunds), errors.Is(err, sdkerrors.ErrInsufficientFunds):
		return 3
	case errors.Is(err, ucdaotypes.ErrNotEligible):
		return 4
	case errors.Is(err, sdkerrors.ErrInvalidCoins):
		return 5
	case errors.Is(err, ucdaotypes.ErrInvalidRatio):
		return 6
	}
	return 9
}

func daoCoins(cs []daoCoin) sdk.Coins {
	out := sdk.Coins{}
	for _, c := range cs {
		out = append(out, sdk.Coin{Denom: daoDenoms[c.D], Amount: math.NewIntFromBigInt(c.V)})
	}
	return out
}

func daoSnapshot(e *Env) daoSnap {
	var s daoSnap
	dk := e.App.DaoKeeper
	idx := map[string]int{}
	for a := 0; a < daoNA; a++ {
		idx[addrN(a).String()] = a
	}
	didx := map[string]int{}
	for d, n := range daoDenoms {
		didx[n] = d
	}
	for a := 0; a < daoNA; a++ {
		for d := 0; d < daoND; d++ {
			s.Bal[a][d] = big.NewInt(0)
			s.Bank[a][d] = e.App.BankKeeper.GetBalance(e.Ctx, addrN(a), daoDenoms[d]).Amount.BigInt()
		}
	}
	for _, b := range dk.GetAccountsBalances(e.Ctx) {
		a, ok := idx[b.Address]
		if !ok {
			s.Stray = "dao balance for unknown account " + b.Address
			continue
		}
		for _, c := range b.Coins {
			d, ok := didx[c.Denom]
			if !ok {
				s.Stray = "dao balance in unknown denom " + c.Denom
				continue
			}
			s.Bal[a][d] = c.Amount.BigInt()
		}
		// per-account query must agree with the full iteration
		if !dk.GetAccountBalances(e.Ctx, addrN(a)).IsEqual(b.Coins) {
			s.Stray = "GetAccountBalances disagrees with GetAccountsBalances for " + b.Address
		}
	}
	tot := dk.GetTotalBalance(e.Ctx)
	modAddr := authtypes.NewModuleAddress(ucdaotypes.ModuleName)
	for d := 0; d < daoND; d++ {
		s.Total[d] = tot.AmountOf(daoDenoms[d]).BigInt()
		if t2 := dk.GetTotalBalanceOf(e.Ctx, daoDenoms[d]).Amount; !t2.Equal(tot.AmountOf(daoDenoms[d])) {
			s.Stray = "GetTotalBalanceOf disagrees with GetTotalBalance"
		}
		s.Mod[d] = e.App.BankKeeper.GetBalance(e.Ctx, modAddr, daoDenoms[d]).Amount.BigInt()
	}
	for _, c := range e.App.BankKeeper.GetAllBalances(e.Ctx, modAddr) {
		if _, ok := didx[c.Denom]; !ok {
			s.Stray = "module account holds unknown denom " + c.Denom
		}
	}
	hres, err := dk.Holders(sdk.WrapSDKContext(e.Ctx), &ucdaotypes.QueryHoldersRequest{})
	if err != nil {
		s.Stray = "holders query failed: " + err.Error()
	} else {
		for _, b := range hres.Balances {
			a, ok := idx[b.Address]
			if !ok {
				s.Stray = "holder index lists unknown account " + b.Address
				continue
			}
			s.Holders = append(s.Holders, a)
		}
		sort.Ints(s.Holders)
	}
	return s
}

func (s *daoSnap) obs(res int, err error) daoStepObs {
	o := daoStepObs{Res: res, Holders: append([]int{}, s.Holders...)}
	if err != nil {
		o.Err = err.Error()
		if len(o.Err) > 160 {
			o.Err = o.Err[:160]
		}
	}
	o.Bal, o.Total, o.Mod, o.Bank = [][]string{}, [][]string{}, [][]string{}, [][]string{}
	for a := 0; a < daoNA; a++ {
		for d := 0; d < daoND; d++ {
			if s.Bal[a][d].Sign() != 0 {
				o.Bal = append(o.Bal, []string{fmt.Sprint(a), fmt.Sprint(d), s.Bal[a][d].String()})
			}
			if s.Bank[a][d].Sign() != 0 {
				o.Bank = append(o.Bank, []string{fmt.Sprint(a), fmt.Sprint(d), s.Bank[a][d].String()})
			}
		}
	}
	for d := 0; d < daoND; d++ {
		if s.Total[d].Sign() != 0 {
			o.Total = append(o.Total, []string{fmt.Sprint(d), s.Total[d].String()})
		}
		if s.Mod[d].Sign() != 0 {
			o.Mod = append(o.Mod, []string{fmt.Sprint(d), s.Mod[d].String()})
		}
	}
	return o
}

func coqTriples(xs [][]string) string {
	out := []string{}
	for _, x := range xs {
		v, _ := new(big.Int).SetString(x[len(x)-1], 10)
		if len(x) == 3 {
			out = append(out, fmt.Sprintf("(%s%%N,%s%%N,%s)", x[0], x[1], coqZ(v)))
		} else {
			out = append(out, fmt.Sprintf("(%s%%N,%s)", x[0], coqZ(v)))
		}
	}
	return coqList(out)
}

func (o daoStepObs) coq() string {
	hs := []string{}
	for _, h := range o.Holders {
		hs = append(hs, coqN(h))
	}
	return fmt.Sprintf("(mkobs %d%%N %s %s %s %s %s)", o.Res, coqTriples(o.Bal), coqTriples(o.Total), coqList(hs), coqTriples(o.Mod), coqTriples(o.Bank))
}

func coqCoins(cs []daoCoin) string {
	out := []string{}
	for _, c := range cs {
		out = append(out, fmt.Sprintf("(%d%%N,%s)", c.D, coqZ(c.V)))
	}
	return coqList(out)
}

func (op daoOp) coq() string {
	switch op.Op {
	case "mint":
		return fmt.Sprintf("(Mint %d%%N %s)", op.A, coqCoins(op.Coins))
	case "enable":
		return fmt.Sprintf("(Enable %s)", coqBool(op.B))
	case "fund":
		return fmt.Sprintf("(Fund %d%%N %s)", op.A, coqCoins(op.Coins))
	case "tall":
		return fmt.Sprintf("(TAll %d%%N %d%%N)", op.A, op.N)
	case "tratio":
		r, _ := new(big.Int).SetString(op.R, 10)
		return fmt.Sprintf("(TRatio %d%%N %d%%N %s)", op.A, op.N, coqZ(r))
	case "tamt":
		return fmt.Sprintf("(TAmt %d%%N %d%%N %s)", op.A, op.N, coqCoins(op.Coins))
	}
	panic("bad op " + op.Op)
}

var e18 = new(big.Int).Exp(big.NewInt(10), big.NewInt(18), nil)

// daoApply runs one op on the real application.
func daoApply(e *Env, op daoOp) error {
	switch op.Op {
	case "mint":
		return testutil.FundAccount(e.Ctx, e.App.BankKeeper, addrN(op.A), daoCoins(op.Coins))
	case "enable":
		bk, ok := e.App.DaoKeeper.(ucdaokeeper.BaseKeeper)
		if !ok {
			return fmt.Errorf("DaoKeeper is not a BaseKeeper")
		}
		return bk.SetParams(e.Ctx, ucdaotypes.Params{EnableDao: op.B})
	case "fund":
		_, err := e.runMsg(&ucdaotypes.MsgFund{Amount: daoCoins(op.Coins), Depositor: addrN(op.A).String()})
		return err
	case "tall":
		_, err := e.runMsg(ucdaotypes.NewMsgTransferOwnership(addrN(op.A), addrN(op.N)))
		return err
	case "tratio":
		r, _ := new(big.Int).SetString(op.R, 10)
		_, err := e.runMsg(ucdaotypes.NewMsgTransferOwnershipWithRatio(addrN(op.A), addrN(op.N), math.LegacyNewDecFromBigIntWithPrec(r, 18)))
		return err
	case "tamt":
		_, err := e.runMsg(ucdaotypes.NewMsgTransferOwnershipWithAmount(addrN(op.A), addrN(op.N), daoCoins(op.Coins)))
		return err
	}
	return fmt.Errorf("bad op")
}

// daoOracle is the property C12 evaluated on the implementation's behaviour for
// one step (pre -> post), independently of the Coq model.
func daoOracle(op daoOp, res int, pre, post *daoSnap) string {
	if post.Stray != "" {
		return post.Stray
	}
	// (1) shares add up to the pooled funds; holder index exact.
	for d := 0; d < daoND; d++ {
		sum := big.NewInt(0)
		for a := 0; a < daoNA; a++ {
			if post.Bal[a][d].Sign() < 0 {
				return fmt.Sprintf("negative DAO balance acct %d denom %s", a, daoDenoms[d])
			}
			sum.Add(sum, post.Bal[a][d])
		}
		if sum.Cmp(post.Total[d]) != 0 {
			return fmt.Sprintf("denom %s: sum of holders' balances %s != recorded total %s", daoDenoms[d], sum, post.Total[d])
		}
		if post.Total[d].Cmp(post.Mod[d]) != 0 {
			return fmt.Sprintf("denom %s: recorded total %s != module account balance %s", daoDenoms[d], post.Total[d], post.Mod[d])
		}
	}
	want := []int{}
	for a := 0; a < daoNA; a++ {
		nz := false
		for d := 0; d < daoND; d++ {
			nz = nz || post.Bal[a][d].Sign() != 0
		}
		if nz {
			want = append(want, a)
		}
	}
	if fmt.Sprint(want) != fmt.Sprint(post.Holders) {
		return fmt.Sprintf("holder index %v != accounts with non-zero balance %v", post.Holders, want)
	}
	// (2) exact effect of the step.
	expBal, expBank := pre.Bal, pre.Bank
	cp := func(m *[daoNA][daoND]*big.Int) {
		for a := range m {
			for d := range m[a] {
				m[a][d] = new(big.Int).Set(m[a][d])
			}
		}
	}
	cp(&expBal)
	cp(&expBank)
	if res == 0 {
		switch op.Op {
		case "mint":
			for _, c := range op.Coins {
				expBank[op.A][c.D].Add(expBank[op.A][c.D], c.V)
			}
		case "fund":
			for _, c := range op.Coins {
				expBank[op.A][c.D].Sub(expBank[op.A][c.D], c.V)
				expBal[op.A][c.D].Add(expBal[op.A][c.D], c.V)
			}
		case "tall", "tratio", "tamt":
			var x [daoND]*big.Int
			for d := range x {
				x[d] = big.NewInt(0)
			}
			switch op.Op {
			case "tall":
				for d := range x {
					x[d].Set(pre.Bal[op.A][d])
				}
			case "tratio":
				r, _ := new(big.Int).SetString(op.R, 10)
				for d := range x {
					x[d].Mul(pre.Bal[op.A][d], r)
					x[d].Quo(x[d], e18)
				}
			case "tamt":
				for _, c := range op.Coins {
					x[c.D].Add(x[c.D], c.V)
				}
			}
			for d := range x {
				if x[d].Sign() < 0 || x[d].Cmp(pre.Bal[op.A][d]) > 0 {
					return fmt.Sprintf("transfer of %s %s accepted but the signer owns only %s", x[d], daoDenoms[d], pre.Bal[op.A][d])
				}
				expBal[op.A][d].Sub(expBal[op.A][d], x[d])
				expBal[op.N][d].Add(expBal[op.N][d], x[d])
			}
		}
	}
	for a := 0; a < daoNA; a++ {
		for d := 0; d < daoND; d++ {
			if expBal[a][d].Cmp(post.Bal[a][d]) != 0 {
				return fmt.Sprintf("%s (res %d): DAO balance of acct %d in %s is %s, the property demands %s", op.Op, res, a, daoDenoms[d], post.Bal[a][d], expBal[a][d])
			}
			if expBank[a][d].Cmp(post.Bank[a][d]) != 0 {
				return fmt.Sprintf("%s (res %d): bank balance of acct %d in %s is %s, the property demands %s", op.Op, res, a, daoDenoms[d], post.Bank[a][d], expBank[a][d])
			}
		}
	}
	return ""
}

func daoRunCase(id string, in daoInput) Case {
	e := forkEnv()
	pre := daoSnapshot(e)
	steps := []string{}
	obsAll := []daoStepObs{}
	oracleMsg := ""
	nOK := 0
	tags := map[string]bool{}
	self := false
	for i, op := range in.Ops {
		err := daoApply(e, op)
		res := daoErrCode(err)
		post := daoSnapshot(e)
		o := post.obs(res, err)
		obsAll = append(obsAll, o)
		steps = append(steps, fmt.Sprintf("(%s, %s)", op.coq(), o.coq()))
		tags[fmt.Sprintf("%s:%d", op.Op, res)] = true
		if res == 0 && (op.Op == "fund" || strings.HasPrefix(op.Op, "t")) {
			nOK++
			if strings.HasPrefix(op.Op, "t") && op.A == op.N {
				self = true
			}
		}
		if oracleMsg == "" {
			if m := daoOracle(op, res, &pre, &post); m != "" {
				oracleMsg = fmt.Sprintf("step %d: %s", i, m)
			}
		}
		pre = post
	}
	if self {
		tags["self-transfer-ok"] = true
	}
	tl := []string{}
	for t := range tags {
		tl = append(tl, t)
	}
	sort.Strings(tl)
	kb, _ := json.Marshal(in)
	return Case{
		ID: id, Kind: "history", Input: in, Obs: obsAll,
		Coq: "[" + strings.Join(steps, ";\n   ") + "]", CoqList: "cases",
		OracleOK: oracleMsg == "", OracleMsg: oracleMsg,
		Nontrivial: nOK >= 2, Key: string(kb), Tags: tl,
	}
}

// ---------------------------------------------------------------- generator
func daoGenCoins(r *Rng, maxBits int, avail *[daoND]*big.Int) []daoCoin {
	cs := []daoCoin{}
	for d := 0; d < daoND; d++ {
		p := 45
		if d == 3 {
			p = 8 // disallowed denom: mostly-valid stream
		}
		if !r.Chance(p) {
			continue
		}
		if avail != nil && avail[d].Sign() == 0 && r.Chance(90) {
			continue
		}
		var v *big.Int
		if avail != nil && avail[d].Sign() > 0 && r.Chance(80) {
			switch r.Intn(4) {
			case 0:
				v = new(big.Int).Set(avail[d]) // everything
			case 1:
				v = big.NewInt(1)
			default:
				v = r.Below(avail[d])
				v.Add(v, big.NewInt(1))
			}
		} else {
			v = r.Big(maxBits)
			v.Add(v, big.NewInt(1))
		}
		cs = append(cs, daoCoin{d, v})
	}
	// malformed stream (about 6%)
	if avail != nil && len(cs) > 0 && r.Chance(6) { // never for the harness' own mint op
		switch r.Intn(4) {
		case 0:
			cs[0].V = big.NewInt(0)
		case 1:
			cs[0].V = big.NewInt(-5)
		case 2:
			cs = append(cs, cs[0]) // duplicate / unsorted
		case 3:
			if len(cs) > 1 {
				cs[0], cs[1] = cs[1], cs[0]
			}
		}
	}
	return cs
}

func daoGen(r *Rng, nops int) daoInput {
	in := daoInput{}
	// model-free shadow state used only to steer generation towards valid ops
	var bank, bal [daoNA][daoND]*big.Int
	for a := range bank {
		for d := range bank[a] {
			bank[a][d] = big.NewInt(0)
			bal[a][d] = big.NewInt(0)
		}
	}
	maxBits := []int{20, 64, 100}[r.Intn(3)]
	for a := 0; a < daoNA; a++ {
		if a > 0 && r.Chance(25) {
			continue
		}
		cs := []daoCoin{}
		for d := 0; d < daoND; d++ {
			if r.Chance(70) {
				v := r.Big(maxBits)
				v.Add(v, big.NewInt(1))
				cs = append(cs, daoCoin{d, v})
				bank[a][d].Add(bank[a][d], v)
			}
		}
		if len(cs) > 0 {
			in.Ops = append(in.Ops, daoOp{Op: "mint", A: a, Coins: cs})
		}
	}
	enabled := true
	for len(in.Ops) < nops {
		a, n := r.Intn(daoNA), r.Intn(daoNA)
		if r.Chance(25) {
			n = a // sender = recipient in a quarter of the transfers
		}
		k := r.Intn(100)
		if k >= 8 && k < 45 && r.Chance(90) {
			rich := []int{}
			for x := 0; x < daoNA; x++ {
				for d := 0; d < 3; d++ {
					if bank[x][d].Sign() > 0 {
						rich = append(rich, x)
						break
					}
				}
			}
			if len(rich) > 0 {
				a = rich[r.Intn(len(rich))]
			}
		}
		if k >= 45 && r.Chance(85) {
			hold := []int{}
			for x := 0; x < daoNA; x++ {
				for d := 0; d < daoND; d++ {
					if bal[x][d].Sign() > 0 {
						hold = append(hold, x)
						break
					}
				}
			}
			if len(hold) > 0 {
				a = hold[r.Intn(len(hold))]
				if r.Chance(25) {
					n = a
				} else {
					n = r.Intn(daoNA)
				}
			}
		}
		switch {
		case k < 4:
			enabled = !enabled || r.Chance(30)
			in.Ops = append(in.Ops, daoOp{Op: "enable", B: enabled})
		case k < 8:
			cs := daoGenCoins(r, maxBits, nil)
			if len(cs) == 0 {
				continue
			}
			in.Ops = append(in.Ops, daoOp{Op: "mint", A: a, Coins: cs})
		case k < 45:
			av := bank[a]
			in.Ops = append(in.Ops, daoOp{Op: "fund", A: a, Coins: daoGenCoins(r, maxBits, &av)})
		case k < 58:
			in.Ops = append(in.Ops, daoOp{Op: "tall", A: a, N: n})
		case k < 78:
			var ratio *big.Int
			switch r.Intn(8) {
			case 0:
				ratio = new(big.Int).Set(e18)
			case 1:
				ratio = big.NewInt(1)
			case 2:
				ratio = new(big.Int).Quo(e18, big.NewInt(2))
			case 3:
				ratio = new(big.Int).Quo(e18, big.NewInt(3))
			case 4:
				if r.Bool() {
					ratio = big.NewInt(0) // invalid
				} else {
					ratio = new(big.Int).Add(e18, big.NewInt(1)) // invalid
				}
			default:
				ratio = r.Below(e18)
				ratio.Add(ratio, big.NewInt(1))
			}
			in.Ops = append(in.Ops, daoOp{Op: "tratio", A: a, N: n, R: ratio.String()})
		default:
			av := bal[a]
			in.Ops = append(in.Ops, daoOp{Op: "tamt", A: a, N: n, Coins: daoGenCoins(r, maxBits, &av)})
		}
		// keep the steering shadow roughly in sync (precision is irrelevant: it
		// only biases the generator; the oracle never uses it)
		last := in.Ops[len(in.Ops)-1]
		switch last.Op {
		case "mint":
			for _, c := range last.Coins {
				if c.V.Sign() > 0 {
					bank[last.A][c.D].Add(bank[last.A][c.D], c.V)
				}
			}
		case "fund":
			ok := enabled
			for _, c := range last.Coins {
				ok = ok && c.D != 3 && c.V.Sign() > 0 && c.V.Cmp(bank[last.A][c.D]) <= 0
			}
			if ok {
				for _, c := range last.Coins {
					bank[last.A][c.D].Sub(bank[last.A][c.D], c.V)
					bal[last.A][c.D].Add(bal[last.A][c.D], c.V)
				}
			}
		case "tamt":
			ok := enabled && last.A != last.N
			for _, c := range last.Coins {
				ok = ok && c.V.Sign() > 0 && c.V.Cmp(bal[last.A][c.D]) <= 0
			}
			if ok {
				for _, c := range last.Coins {
					bal[last.A][c.D].Sub(bal[last.A][c.D], c.V)
					bal[last.N][c.D].Add(bal[last.N][c.D], c.V)
				}
			}
		case "tratio":
			rr, _ := new(big.Int).SetString(last.R, 10)
			if enabled && last.A != last.N && rr.Sign() > 0 && rr.Cmp(e18) <= 0 {
				okr := true
				var xs [daoND]*big.Int
				for d := 0; d < daoND; d++ {
					xs[d] = new(big.Int).Mul(bal[last.A][d], rr)
					xs[d].Quo(xs[d], e18)
					if bal[last.A][d].Sign() > 0 && xs[d].Sign() == 0 {
						okr = false
					}
				}
				if okr {
					for d := 0; d < daoND; d++ {
						bal[last.A][d].Sub(bal[last.A][d], xs[d])
						bal[last.N][d].Add(bal[last.N][d], xs[d])
					}
				}
			}
		case "tall":
			if enabled && last.A != last.N {
				for d := 0; d < daoND; d++ {
					bal[last.N][d].Add(bal[last.N][d], bal[last.A][d])
					bal[last.A][d] = big.NewInt(0)
				}
			}
		}
	}
	return in
}

func daoDriver(cfg Config, out *Out) error {
	if cfg.Replay != "" {
		i := 0
		return readReplayInputs(cfg.Replay, func(raw json.RawMessage) error {
			var in daoInput
			if err := json.Unmarshal(raw, &in); err != nil {
				return err
			}
			out.Emit(daoRunCase(fmt.Sprintf("replay-%d", i), in))
			i++
			return nil
		})
	}
	r := NewRng(cfg.Seed)
	for i := 0; i < cfg.N; i++ {
		cr := r.Fork()
		nops := 6 + cr.Intn(10)
		out.Emit(daoRunCase(fmt.Sprintf("s%d-%d", cfg.Seed, i), daoGen(cr, nops)))
	}
	return nil
}
