package main

// Driver "upgrade175" (property C01): the v1.7.5 upgrade handler
// (app/upgrades/v1.7.5 TurnOffLiquidVesting) collects the redeem messages in
// worker goroutines (2*NumCPU-1 of them) that append to shared slices.  The
// driver prepares a state with many holders of liquid tokens, runs the real
// handler several times on copy-on-write forks of that one state and compares
// what was written: the same state and the same code must give the same result.
// (Before the repair 1adc7a7 the appends were unsynchronised: measured on a
// scratch copy with the repair reverted, 57 % of the single runs with 300 holders
// lost at least one redeem message, 5 of 5 cases of 6 runs were detected.)

import (
	"encoding/hex"
	"encoding/json"
	"fmt"
	"sort"
	"time"

	sdkmath "cosmossdk.io/math"
	sdk "github.com/cosmos/cosmos-sdk/types"
	sdkvesting "github.com/cosmos/cosmos-sdk/x/auth/vesting/types"
	"github.com/ethereum/go-ethereum/crypto"

	v175 "github.com/haqq-network/haqq/app/upgrades/v1.7.5"
	"github.com/haqq-network/haqq/utils"
	liquidvestingtypes "github.com/haqq-network/haqq/x/liquidvesting/types"
	vestingtypes "github.com/haqq-network/haqq/x/vesting/types"
)

func init() { register("upgrade175", upgrade175Driver) }

type upInput struct {
	Holders int `json:"holders"`
	Trials  int `json:"trials"`
}

type upObs struct {
	Holders      int      `json:"holders"`
	Fingerprints []string `json:"fingerprints"` // one per trial
	Redeemed     []int    `json:"redeemed"`     // holders whose liquid tokens were redeemed, per trial
	Distinct     int      `json:"distinct_results"`
	Err          string   `json:"err,omitempty"`
}

func holderAddr(i int) sdk.AccAddress {
	b := crypto.Keccak256([]byte(fmt.Sprintf("verif-liquid-holder-%d", i)))[:20]
	return sdk.AccAddress(b)
}

type upEnv struct {
	rep *Replica
	ctx sdk.Context
	n   int
}

var upBase = map[int]*upEnv{}

func upBaseEnv(holders int) (*upEnv, error) {
	if e, ok := upBase[holders]; ok {
		return e, nil
	}
	g := bhGenesis{NVal: 3, MaxVals: 4, Coinomics: true, Window: 8, UnbondSecs: 100, VoteSecs: 30}
	rep := newReplica(g, repOpts{})
	h := &histRun{Rep: rep}
	set := bhInitialValSet(g)
	h.Track = valTracker{sets: [3][]valEntry{nil, set, set}}
	rb := h.makeRaw(bhBlock{DT: 5})
	if _, pan := rep.beginBlock(&rb); pan != "" {
		return nil, fmt.Errorf("%s", pan)
	}
	a := rep.App
	ctx := rep.ctx()
	total := coinsOf(utils.BaseDenom, mulE18(1_000_000))
	if _, err := a.VestingKeeper.ConvertIntoVestingAccount(sdk.WrapSDKContext(ctx), &vestingtypes.MsgConvertIntoVestingAccount{
		FromAddress: bhUserAcc[0].String(), ToAddress: bhUserAcc[4].String(), StartTime: ctx.BlockTime().Add(-time.Hour),
		LockupPeriods:  sdkvesting.Periods{{Length: 720000, Amount: total}},
		VestingPeriods: sdkvesting.Periods{{Length: 0, Amount: total}},
	}); err != nil {
		return nil, err
	}
	for i := 0; i < holders; i++ {
		msg := liquidvestingtypes.NewMsgLiquidate(bhUserAcc[4], holderAddr(i), sdk.NewCoin(utils.BaseDenom, sdkmath.NewInt(int64(100_000+i))))
		if _, err := a.LiquidVestingKeeper.Liquidate(sdk.WrapSDKContext(ctx), msg); err != nil {
			return nil, fmt.Errorf("liquidate %d: %w", i, err)
		}
	}
	e := &upEnv{rep: rep, ctx: ctx, n: holders}
	upBase[holders] = e
	return e, nil
}

// fingerprint of everything the handler may write: accounts, balances, liquid denominations, token pairs, evm storage
func upFingerprint(rep *Replica, ctx sdk.Context) string {
	h := crypto.NewKeccakState()
	for _, name := range []string{"acc", "bank", "liquidvesting", "erc20", "evm"} {
		st := ctx.KVStore(rep.App.GetKey(name))
		it := st.Iterator(nil, nil)
		for ; it.Valid(); it.Next() {
			h.Write(it.Key())
			h.Write([]byte{0})
			h.Write(it.Value())
			h.Write([]byte{1})
		}
		it.Close()
	}
	return hex.EncodeToString(h.Sum(nil)[:10])
}

func upRunCase(id string, in upInput) Case {
	c := Case{ID: id, Kind: "upgrade-v1.7.5", Input: in}
	obs := upObs{Holders: in.Holders}
	e, err := upBaseEnv(in.Holders)
	if err != nil {
		obs.Err = err.Error()
		c.Obs = obs
		c.OracleOK = true // the scenario could not be built: nothing observed
		c.Tags = []string{"upgrade:setup-failed"}
		return c
	}
	a := e.rep.App
	seen := map[string]bool{}
	for t := 0; t < in.Trials; t++ {
		cctx, _ := e.ctx.CacheContext()
		func() {
			defer func() {
				if x := recover(); x != nil {
					obs.Err = fmt.Sprintf("panic: %v", x)
				}
			}()
			if err := v175.TurnOffLiquidVesting(cctx, a.BankKeeper, a.LiquidVestingKeeper, a.Erc20Keeper, *a.EvmKeeper, a.AccountKeeper); err != nil {
				obs.Err = err.Error()
			}
		}()
		fp := upFingerprint(e.rep, cctx)
		obs.Fingerprints = append(obs.Fingerprints, fp)
		seen[fp] = true
		red := 0
		for i := 0; i < in.Holders; i++ {
			if acc, ok := a.AccountKeeper.GetAccount(cctx, holderAddr(i)).(*vestingtypes.ClawbackVestingAccount); ok && acc != nil {
				red++
			}
		}
		obs.Redeemed = append(obs.Redeemed, red)
	}
	obs.Distinct = len(seen)
	c.Obs = obs
	c.OracleOK = len(seen) <= 1
	if !c.OracleOK {
		rs := append([]int{}, obs.Redeemed...)
		sort.Ints(rs)
		c.OracleMsg = fmt.Sprintf("the v1.7.5 upgrade handler run %d times on the same state wrote %d different results (holders redeemed: min %d, max %d of %d): "+
			"the outcome depends on goroutine scheduling", in.Trials, len(seen), rs[0], rs[len(rs)-1], in.Holders)
	}
	c.Nontrivial = in.Holders > 0 && obs.Err == ""
	kb, _ := json.Marshal(in)
	c.Key = string(kb)
	c.Tags = []string{fmt.Sprintf("upgrade:holders=%d", in.Holders)}
	return c
}

func upgrade175Driver(cfg Config, out *Out) error {
	if cfg.Replay != "" {
		i := 0
		return readReplayInputs(cfg.Replay, func(raw json.RawMessage) error {
			var in upInput
			if err := json.Unmarshal(raw, &in); err != nil {
				return err
			}
			out.Emit(upRunCase(fmt.Sprintf("replay-%d", i), in))
			i++
			return nil
		})
	}
	if cfg.N > 3 {
		cfg.N = 3 // each case is expensive (hundreds of contract deployments and redeems)
	}
	for i := 0; i < cfg.N; i++ {
		in := upInput{Holders: 300, Trials: 6}
		if cfg.Tier == "thorough" {
			in = upInput{Holders: []int{400, 150, 600}[i%3], Trials: 12}
		}
		out.Emit(upRunCase(fmt.Sprintf("s%d-%d", cfg.Seed, i), in))
	}
	return nil
}
