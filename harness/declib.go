package main

// Driver "declib": calls the real cosmossdk.io/math LegacyDec functions on
// generated operands and emits (op, a, b, result) tuples which coq/Base/Dec.v
// re-evaluates inside Coq (dec_eval).  The model of the decimal library is
// shared by several properties (C13, C17, ...), so each of them runs this tie.
// The oracle here is the library's own documented contract, computed with
// big.Rat: round-to-nearest for Mul/Quo/RoundInt, truncation towards zero for
// the Truncate variants, least integer above for Ceil.

import (
	"encoding/json"
	"fmt"
	"math/big"

	"cosmossdk.io/math"
)

func init() { register("declib", declibDriver) }

type declibInput struct {
	Op int    `json:"op"`
	A  string `json:"a"`
	B  string `json:"b"`
}

var declibNames = []string{"Mul", "Quo", "MulInt", "QuoInt", "TruncateInt", "RoundInt", "Ceil", "MulTruncate",
	"QuoTruncate", "MulRoundUp", "QuoRoundUp", "MaxDec", "MinDec", "IsInteger", "fits", "NewDecFromInt"}

func decOf(x *big.Int) math.LegacyDec {
	return math.LegacyNewDecFromBigIntWithPrec(new(big.Int).Set(x), 18)
}

// declibCall runs one library call; ok=false when the library panicked
// (overflow, division by zero): such inputs are outside the total model.
func declibCall(op int, a, b *big.Int) (res *big.Int, ok bool) {
	defer func() {
		if r := recover(); r != nil {
			res, ok = nil, false
		}
	}()
	da, db := decOf(a), decOf(b)
	switch op {
	case 0:
		return da.Mul(db).BigInt(), true
	case 1:
		return da.Quo(db).BigInt(), true
	case 2:
		return da.MulInt(math.NewIntFromBigInt(b)).BigInt(), true
	case 3:
		return da.QuoInt(math.NewIntFromBigInt(b)).BigInt(), true
	case 4:
		return da.TruncateInt().BigInt(), true
	case 5:
		return da.RoundInt().BigInt(), true
	case 6:
		return da.Ceil().BigInt(), true
	case 7:
		return da.MulTruncate(db).BigInt(), true
	case 8:
		return da.QuoTruncate(db).BigInt(), true
	case 9:
		return da.MulRoundUp(db).BigInt(), true
	case 10:
		return da.QuoRoundUp(db).BigInt(), true
	case 11:
		return math.LegacyMaxDec(da, db).BigInt(), true
	case 12:
		return math.LegacyMinDec(da, db).BigInt(), true
	case 13:
		if da.IsInteger() {
			return big.NewInt(1), true
		}
		return big.NewInt(0), true
	case 14:
		// NewDecFromStr's range test (bit length of the scaled integer <= 315)
		_, err := math.LegacyNewDecFromStr(da.String())
		if err == nil {
			return big.NewInt(1), true
		}
		return big.NewInt(0), true
	case 15:
		return math.LegacyNewDecFromInt(math.NewIntFromBigInt(a)).BigInt(), true
	}
	return nil, false
}

// nearest reports whether res (scaled by 10^18 when scaled) is a nearest
// multiple to the exact rational x: |res - x| <= 1/2 (+slack).
func ratAbsDiffLE(res *big.Int, x *big.Rat, bound *big.Rat) bool {
	d := new(big.Rat).Sub(new(big.Rat).SetInt(res), x)
	d.Abs(d)
	return d.Cmp(bound) <= 0
}

func declibOracle(op int, a, b, res *big.Int) string {
	ra, rb := new(big.Rat).SetInt(a), new(big.Rat).SetInt(b)
	p := new(big.Rat).SetInt(e18)
	halfR := big.NewRat(1, 2)
	one := big.NewRat(1, 1)
	var exact *big.Rat // exact result in units of 10^-18 (or integer units for 4,5)
	switch op {
	case 0, 7, 9:
		exact = new(big.Rat).Quo(new(big.Rat).Mul(ra, rb), p)
	case 1, 8, 10:
		exact = new(big.Rat).Quo(new(big.Rat).Mul(ra, p), rb)
	case 2:
		exact = new(big.Rat).Mul(ra, rb)
	case 3:
		exact = new(big.Rat).Quo(ra, rb)
	case 4, 5:
		exact = new(big.Rat).Quo(ra, p)
	case 6:
		exact = new(big.Rat).Quo(ra, p)
		c := new(big.Rat).Quo(new(big.Rat).SetInt(res), p) // ceil as a whole number
		if !c.IsInt() || c.Cmp(exact) < 0 || new(big.Rat).Sub(c, exact).Cmp(one) >= 0 {
			return fmt.Sprintf("Ceil(%s e-18) = %s e-18 is not the least integer above", a, res)
		}
		return ""
	default:
		return ""
	}
	switch op {
	case 0, 5: // nearest
		if !ratAbsDiffLE(res, exact, halfR) {
			return fmt.Sprintf("%s: %s is not a nearest value to %s", declibNames[op], res, exact.FloatString(3))
		}
	case 1: // Quo truncates at 10^-36 first: 1/2 + 10^-18
		bd := new(big.Rat).Add(halfR, new(big.Rat).Quo(one, p))
		if !ratAbsDiffLE(res, exact, bd) {
			return fmt.Sprintf("Quo: %s is not within 1/2+1e-18 ulp of %s", res, exact.FloatString(3))
		}
	case 2:
		if !ratAbsDiffLE(res, exact, new(big.Rat)) {
			return "MulInt is not exact"
		}
	case 3, 4, 7, 8: // towards zero
		d := new(big.Rat).Sub(exact, new(big.Rat).SetInt(res))
		if d.Sign()*exact.Sign() < 0 || d.Abs(d).Cmp(one) >= 0 {
			return fmt.Sprintf("%s: %s is not %s truncated towards zero", declibNames[op], res, exact.FloatString(3))
		}
	case 9, 10:
		if !ratAbsDiffLE(res, exact, new(big.Rat).Add(one, new(big.Rat).Quo(one, p))) {
			return fmt.Sprintf("%s: %s is more than one ulp from %s", declibNames[op], res, exact.FloatString(3))
		}
	}
	return ""
}

func declibRun(id string, in declibInput) (Case, bool) {
	a, _ := new(big.Int).SetString(in.A, 10)
	b, _ := new(big.Int).SetString(in.B, 10)
	if a == nil || b == nil {
		return Case{}, false
	}
	res, ok := declibCall(in.Op, a, b)
	if !ok {
		return Case{}, false
	}
	msg := declibOracle(in.Op, a, b, res)
	kb, _ := json.Marshal(in)
	return Case{
		ID: id, Kind: "declib", Input: in, Obs: res.String(),
		Coq:     fmt.Sprintf("(%d%%N, %s, %s, %s)", in.Op, coqZ(a), coqZ(b), coqZ(res)),
		CoqList: "decops", OracleOK: msg == "", OracleMsg: msg,
		Nontrivial: true, Key: string(kb), Tags: []string{"dec:" + declibNames[in.Op]},
	}, true
}

// decOperand: whole numbers, exact halves (banker's ties), values one digit
// around a tie, tiny, huge, either sign.
func decOperand(r *Rng) *big.Int {
	var x *big.Int
	switch r.Intn(10) {
	case 0:
		x = new(big.Int).Mul(r.Big(70), e18) // whole
	case 1:
		x = new(big.Int).Mul(r.Big(40), e18) // tie: k + 1/2
		x.Add(x, new(big.Int).Quo(e18, big.NewInt(2)))
	case 2:
		x = new(big.Int).Mul(r.Big(40), e18)
		x.Add(x, new(big.Int).Quo(e18, big.NewInt(2)))
		x.Add(x, big.NewInt(int64(r.Intn(3)-1)))
	case 3:
		x = r.Big(20) // tiny
	case 4:
		x = r.Big(300)
	case 5:
		x = new(big.Int).Mul(big.NewInt(int64(r.Intn(200))), new(big.Int).Quo(e18, big.NewInt(100))) // k/100
	default:
		x = r.Big(130)
	}
	if r.Chance(30) {
		x.Neg(x)
	}
	return x
}

func declibGen(r *Rng) declibInput {
	op := r.Intn(len(declibNames))
	a, b := decOperand(r), decOperand(r)
	switch op {
	case 0, 7, 9:
		// products whose removed digits are an exact tie: a = k/2 units, b = 10^18 ... or (2k+1)*5 * 10^17
		if r.Chance(25) {
			a = new(big.Int).Add(new(big.Int).Mul(r.Big(30), big.NewInt(2)), big.NewInt(1))
			b = new(big.Int).Quo(e18, big.NewInt(2))
			if r.Bool() {
				a.Neg(a)
			}
		}
	case 1, 8, 10:
		if b.Sign() == 0 || r.Chance(30) {
			b = new(big.Int).Mul(big.NewInt(int64(1+r.Intn(400))), e18)
		}
		if r.Chance(10) {
			b = new(big.Int).Mul(big.NewInt(31536000000), e18)
			a = new(big.Int).Mul(r.Big(34), e18)
		}
	case 2, 3:
		b = r.Big(70)
		if r.Chance(30) {
			b.Neg(b)
		}
		if op == 3 && b.Sign() == 0 {
			b = big.NewInt(3)
		}
	case 14:
		if r.Bool() {
			// around the 315-bit boundary
			a = new(big.Int).Lsh(big.NewInt(1), 315)
			a.Add(a, big.NewInt(int64(r.Intn(3)-1)))
			if r.Bool() {
				a.Neg(a)
			}
		}
	case 15:
		a = r.Big(200)
		if r.Bool() {
			a.Neg(a)
		}
	}
	return declibInput{Op: op, A: a.String(), B: b.String()}
}

func declibDriver(cfg Config, out *Out) error {
	if cfg.Replay != "" {
		i := 0
		return readReplayInputs(cfg.Replay, func(raw json.RawMessage) error {
			var in declibInput
			if err := json.Unmarshal(raw, &in); err != nil {
				return err
			}
			if c, ok := declibRun(fmt.Sprintf("replay-%d", i), in); ok {
				out.Emit(c)
			}
			i++
			return nil
		})
	}
	r := NewRng(cfg.Seed ^ 0xDEC)
	for i := 0; out.n < cfg.N && i < 20*cfg.N+100; i++ {
		if c, ok := declibRun(fmt.Sprintf("d%d-%d", cfg.Seed, i), declibGen(r.Fork())); ok {
			out.Emit(c)
		}
	}
	return nil
}
