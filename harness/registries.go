package main

// Driver "registries" (property C01): ties App/DeterminismModel.v to the real code
// at the places where a Go map is involved.
//
//   export     random DAO ledger on a fork of a real application: the model of
//              GetAccountsBalances (a map used as an index into a slice) applied
//              to the store iteration must give what the real function returns.
//   sorted     Keeper.GetAvailablePrecompileAddrs vs the model's sorted key list,
//              given the registry's members in a shuffled order.
//   blocked    app.BlockedAddrs() vs the model set built from the module names
//              (shuffled) and the precompile list (shuffled).
//   statedb    metamorphic check on the real StateDB (no model term): the same
//              final balances / storage values, produced by differently ordered
//              journals, Commit to the same store contents and the same verdict.

import (
	"encoding/hex"
	"encoding/json"
	"fmt"
	"math/big"
	"sort"

	sdk "github.com/cosmos/cosmos-sdk/types"
	authtypes "github.com/cosmos/cosmos-sdk/x/auth/types"
	"github.com/ethereum/go-ethereum/common"
	"github.com/ethereum/go-ethereum/crypto"

	"github.com/haqq-network/haqq/app"
	precommon "github.com/haqq-network/haqq/precompiles/common"
	"github.com/haqq-network/haqq/utils"
	"github.com/haqq-network/haqq/x/evm/statedb"
	ucdaokeeper "github.com/haqq-network/haqq/x/ucdao/keeper"
	ucdaotypes "github.com/haqq-network/haqq/x/ucdao/types"
)

func init() { register("registries", registriesDriver) }

type regInput struct {
	Kind string `json:"kind"`
	Seed uint64 `json:"seed"`
}

func shuffled(r *Rng, n int) []int {
	p := make([]int, n)
	for i := range p {
		p[i] = i
	}
	for i := n - 1; i > 0; i-- {
		j := r.Intn(i + 1)
		p[i], p[j] = p[j], p[i]
	}
	return p
}

func regExport(id string, in regInput) Case {
	r := NewRng(in.Seed)
	e := boBaseEnv().fork()
	a := e.Rep.App
	srv := ucdaokeeper.NewMsgServerImpl(a.DaoKeeper)
	// liquid denominations make the ledger multi-denominational
	nl := r.Intn(3)
	for i := 0; i < nl; i++ {
		op := boOp{K: "liquidate", A: 1 + r.Intn(2), C: r.Intn(4), X: mulE18(int64(10 + r.Intn(50))).String()}
		e.apply(&op)
		if op.Liquid >= 2 { // bring the tokens back as coins so that they can be put into the DAO
			c := boOp{K: "converterc20", A: op.C, D: op.Liquid, X: op.X}
			e.apply(&c)
		}
	}
	n := 3 + r.Intn(8)
	for i := 0; i < n; i++ {
		u := r.Intn(4)
		d := 0
		if nl > 0 && r.Chance(40) {
			d = 2 + r.Intn(nl)
		}
		have := a.BankKeeper.SpendableCoins(e.Ctx, bhUserAcc[u]).AmountOf(boDenom(d)).BigInt()
		if have.Sign() == 0 {
			continue
		}
		x := new(big.Int).Quo(have, big.NewInt(int64(2+r.Intn(50))))
		if x.Sign() == 0 {
			x = big.NewInt(1)
		}
		cctx, write := e.Ctx.CacheContext()
		if _, err := srv.Fund(sdk.WrapSDKContext(cctx), ucdaotypes.NewMsgFund(coinsOf(boDenom(d), x), bhUserAcc[u])); err == nil {
			write()
		}
		if r.Chance(25) {
			v := r.Intn(4)
			cctx, write := e.Ctx.CacheContext()
			if _, err := srv.TransferOwnership(sdk.WrapSDKContext(cctx), ucdaotypes.NewMsgTransferOwnership(bhUserAcc[u], bhUserAcc[v])); err == nil {
				write()
			}
		}
	}
	acctIdx := func(s string) int {
		for u := 0; u < bhNU; u++ {
			if bhUserAcc[u].String() == s {
				return u
			}
		}
		return 99
	}
	denomIdx := func(s string) int {
		for d := 0; d < boND; d++ {
			if boDenom(d) == s {
				return d
			}
		}
		return 99
	}
	var entries []string
	type ent struct {
		A, D int
		V    string
	}
	var raw []ent
	a.DaoKeeper.IterateAllBalances(e.Ctx, func(addr sdk.AccAddress, c sdk.Coin) bool {
		raw = append(raw, ent{acctIdx(addr.String()), denomIdx(c.Denom), c.Amount.String()})
		entries = append(entries, fmt.Sprintf("(%d%%N, %d%%N, %s)", acctIdx(addr.String()), denomIdx(c.Denom), coqZ(c.Amount.BigInt())))
		return false
	})
	var outs []string
	type row struct {
		A     int
		Coins [][2]string
	}
	var obs []row
	for _, b := range a.DaoKeeper.GetAccountsBalances(e.Ctx) {
		var cs []string
		rw := row{A: acctIdx(b.Address)}
		for _, c := range b.Coins {
			cs = append(cs, fmt.Sprintf("(%d%%N, %s)", denomIdx(c.Denom), coqZ(c.Amount.BigInt())))
			rw.Coins = append(rw.Coins, [2]string{fmt.Sprint(denomIdx(c.Denom)), c.Amount.String()})
		}
		obs = append(obs, rw)
		outs = append(outs, fmt.Sprintf("(%d%%N, %s)", rw.A, coqList(cs)))
	}
	c := Case{ID: id, Kind: "dao-export", Input: in, Obs: map[string]interface{}{"store_iteration": raw, "exported": obs}}
	c.Coq = fmt.Sprintf("RExport (%s, %s)", coqList(entries), coqList(outs))
	c.CoqList = "regs"
	// oracle (no model): every account once; per account the coins of the store iteration, in iteration order
	seen := map[int]bool{}
	c.OracleOK = true
	for _, rw := range obs {
		if seen[rw.A] {
			c.OracleOK, c.OracleMsg = false, fmt.Sprintf("account %d exported twice", rw.A)
		}
		seen[rw.A] = true
		var want [][2]string
		for _, x := range raw {
			if x.A == rw.A {
				want = append(want, [2]string{fmt.Sprint(x.D), x.V})
			}
		}
		if fmt.Sprint(want) != fmt.Sprint(rw.Coins) {
			c.OracleOK, c.OracleMsg = false, fmt.Sprintf("account %d: exported %v, store holds %v", rw.A, rw.Coins, want)
		}
	}
	for _, x := range raw {
		if !seen[x.A] {
			c.OracleOK, c.OracleMsg = false, fmt.Sprintf("account %d missing from the export", x.A)
		}
	}
	c.Nontrivial = len(obs) >= 2
	c.Key = fmt.Sprintf("export-%d", in.Seed)
	c.Tags = []string{"reg:dao-export", fmt.Sprintf("reg:export-accounts=%d", len(obs))}
	return c
}

func regSorted(id string, in regInput) Case {
	r := NewRng(in.Seed)
	a := boBaseEnv().Rep.App
	got := a.EvmKeeper.GetAvailablePrecompileAddrs()
	// members of the registry, found by probing (the map itself is private): every address below 0x1000
	var members []int
	for i := 0; i < 0x1000; i++ {
		if a.EvmKeeper.IsAvailablePrecompile(common.BigToAddress(big.NewInt(int64(i)))) {
			members = append(members, i)
		}
	}
	var iter, obs []string
	for _, p := range shuffled(r, len(members)) {
		iter = append(iter, fmt.Sprintf("%d%%N", members[p]))
	}
	ok := len(got) == len(members)
	for _, g := range got {
		obs = append(obs, fmt.Sprintf("%d%%N", new(big.Int).SetBytes(g.Bytes()).Int64()))
	}
	c := Case{ID: id, Kind: "precompile-addrs", Input: in, Obs: map[string]interface{}{"members": members, "returned": obs}}
	c.Coq = fmt.Sprintf("RSorted (%s, %s)", coqList(iter), coqList(obs))
	c.CoqList = "regs"
	c.OracleOK = ok && sort.SliceIsSorted(got, func(i, j int) bool { return string(got[i].Bytes()) < string(got[j].Bytes()) })
	if !c.OracleOK {
		c.OracleMsg = "GetAvailablePrecompileAddrs is not the ascending list of the registry's members"
	}
	c.Nontrivial = len(members) > 3
	c.Key = fmt.Sprintf("sorted-%d", in.Seed)
	c.Tags = []string{"reg:precompile-addrs"}
	return c
}

func regBlocked(id string, in regInput) Case {
	r := NewRng(in.Seed)
	a := boBaseEnv().Rep.App
	perms := app.GetMaccPerms()
	var names []string
	for k := range perms {
		names = append(names, k)
	}
	sort.Strings(names)
	// intern every address that occurs
	blocked := a.BlockedAddrs()
	var all []string
	for k := range blocked {
		all = append(all, k)
	}
	for _, n := range names {
		all = append(all, authtypes.NewModuleAddress(n).String())
	}
	all = append(all, precommon.DefaultPrecompilesBech32...)
	sort.Strings(all)
	uniq := all[:0]
	for i, s := range all {
		if i == 0 || s != all[i-1] {
			uniq = append(uniq, s)
		}
	}
	idx := map[string]int{}
	for i, s := range uniq {
		idx[s] = i + 1
	}
	var namesCoq, preCoq, obsCoq []string
	for _, p := range shuffled(r, len(names)) {
		namesCoq = append(namesCoq, fmt.Sprintf("(%d%%N, %d%%N)", p, idx[authtypes.NewModuleAddress(names[p]).String()]))
	}
	for _, p := range shuffled(r, len(precommon.DefaultPrecompilesBech32)) {
		preCoq = append(preCoq, fmt.Sprintf("%d%%N", idx[precommon.DefaultPrecompilesBech32[p]]))
	}
	var obsIdx []int
	for k, v := range blocked {
		if v {
			obsIdx = append(obsIdx, idx[k])
		}
	}
	sort.Ints(obsIdx)
	for _, i := range obsIdx {
		obsCoq = append(obsCoq, fmt.Sprintf("%d%%N", i))
	}
	c := Case{ID: id, Kind: "blocked-addrs", Input: in, Obs: map[string]interface{}{"module_names": names, "blocked": len(obsIdx)}}
	c.Coq = fmt.Sprintf("RBlocked (%s, %s, %s)", coqList(namesCoq), coqList(preCoq), coqList(obsCoq))
	c.CoqList = "regs"
	// oracle: two calls give the same set; module accounts = the module addresses
	again := a.BlockedAddrs()
	c.OracleOK = len(again) == len(blocked)
	for k := range blocked {
		if !again[k] {
			c.OracleOK = false
		}
	}
	ma := a.ModuleAccountAddrs()
	for _, n := range names {
		if !ma[authtypes.NewModuleAddress(n).String()] {
			c.OracleOK = false
		}
	}
	if len(ma) != len(names) {
		c.OracleOK = false
	}
	if !c.OracleOK {
		c.OracleMsg = "BlockedAddrs / ModuleAccountAddrs differ between calls or from the permission map"
	}
	c.Nontrivial = true
	c.Key = fmt.Sprintf("blocked-%d", in.Seed)
	c.Tags = []string{"reg:blocked-addrs"}
	return c
}

// ---- StateDB commit: same final values, differently ordered journals
type sdbWrite struct {
	Addr int    // actor index
	Slot int    // -1 = balance
	Val  uint64 // balance delta (added) or storage value
}

func regStateDB(id string, in regInput) Case {
	r := NewRng(in.Seed)
	base := boBaseEnv()
	a := base.Rep.App
	nacc := 2 + r.Intn(6)
	var writes []sdbWrite
	for i := 0; i < nacc; i++ {
		addr := r.Intn(bhNU + bhNC)
		if r.Chance(80) {
			writes = append(writes, sdbWrite{addr, -1, uint64(1 + r.Intn(1_000_000))})
		}
		for k := 0; k < r.Intn(5); k++ {
			writes = append(writes, sdbWrite{bhNU + r.Intn(bhNC), r.Intn(6), uint64(r.Intn(5))})
		}
	}
	withBlocked := r.Chance(25) // a blocked address gets a higher balance: the commit must fail the same way in every order
	// each (addr, slot) written once so that the final value does not depend on the order of the writes
	seen := map[[2]int]bool{}
	uniq := writes[:0]
	for _, w := range writes {
		k := [2]int{w.Addr, w.Slot}
		if !seen[k] {
			seen[k] = true
			uniq = append(uniq, w)
		}
	}
	writes = uniq
	run := func(order []int) (string, string) {
		cctx, _ := base.Ctx.CacheContext()
		db := statedb.New(cctx, a.EvmKeeper, statedb.NewEmptyTxConfig(common.BytesToHash(cctx.HeaderHash().Bytes())))
		for _, i := range order {
			w := writes[i]
			if w.Slot < 0 {
				db.AddBalance(actorAddr(w.Addr), new(big.Int).SetUint64(w.Val))
			} else {
				db.SetState(actorAddr(w.Addr), common.BigToHash(big.NewInt(int64(w.Slot))), common.BigToHash(new(big.Int).SetUint64(w.Val)))
			}
		}
		if withBlocked {
			db.AddBalance(addrStakingPC, big.NewInt(5))
		}
		verdict := "ok"
		if err := db.Commit(); err != nil {
			verdict = "error"
		}
		h := crypto.NewKeccakState()
		for _, name := range []string{"acc", "bank", "evm"} {
			it := cctx.KVStore(a.GetKey(name)).Iterator(nil, nil)
			for ; it.Valid(); it.Next() {
				h.Write(it.Key())
				h.Write([]byte{0})
				h.Write(it.Value())
				h.Write([]byte{1})
			}
			it.Close()
		}
		return verdict, hex.EncodeToString(h.Sum(nil)[:10])
	}
	ident := make([]int, len(writes))
	for i := range ident {
		ident[i] = i
	}
	v0, f0 := run(ident)
	c := Case{ID: id, Kind: "statedb-commit-order", Input: in, OracleOK: true}
	fps := []string{v0 + ":" + f0}
	for t := 0; t < 4; t++ {
		v, f := run(shuffled(r, len(writes)))
		fps = append(fps, v+":"+f)
		if v != v0 || f != f0 {
			c.OracleOK = false
			c.OracleMsg = fmt.Sprintf("the same %d StateDB writes journalled in another order committed differently: %s:%s vs %s:%s", len(writes), v0, f0, v, f)
		}
	}
	c.Obs = map[string]interface{}{"writes": len(writes), "blocked_address_dirty": withBlocked, "results": fps}
	c.Nontrivial = len(writes) >= 2
	c.Key = fmt.Sprintf("statedb-%d", in.Seed)
	c.Tags = []string{"reg:statedb-commit-order", "reg:statedb-verdict=" + v0}
	return c
}

func regRunCase(id string, in regInput) Case {
	switch in.Kind {
	case "export":
		return regExport(id, in)
	case "sorted":
		return regSorted(id, in)
	case "blocked":
		return regBlocked(id, in)
	default:
		return regStateDB(id, in)
	}
}

func registriesDriver(cfg Config, out *Out) error {
	if cfg.Replay != "" {
		i := 0
		return readReplayInputs(cfg.Replay, func(raw json.RawMessage) error {
			var in regInput
			if err := json.Unmarshal(raw, &in); err != nil {
				return err
			}
			out.Emit(regRunCase(fmt.Sprintf("replay-%d", i), in))
			i++
			return nil
		})
	}
	r := NewRng(cfg.Seed)
	for i := 0; i < cfg.N; i++ {
		kind := []string{"export", "export", "statedb", "statedb", "export", "statedb", "sorted", "blocked"}[i%8]
		out.Emit(regRunCase(fmt.Sprintf("s%d-%d", cfg.Seed, i), regInput{Kind: kind, Seed: r.U64() % 1_000_000_007}))
	}
	return nil
}

var _ = utils.BaseDenom
