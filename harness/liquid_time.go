package main

// Driver "liquid" (property C11), the part about TIME: "redeeming returns exactly the
// redeemed amount under a schedule that releases nothing earlier than the original one did".
//
// The oracle below does not read any vesting account record and does not use the model.
// It keeps, per account, obligations written down from the inputs and from the liquid
// denom records at the moment of the message:
//   + the lockup schedule an account was set up with (the mkvest op itself),
//   - the schedule recorded for a liquid token when the account liquidated it,
//   + for every successful redeem the redeemed share: the difference of the token's recorded
//     schedule before and after, at the token's start time (= absolute release times).
// After every op and at every probe time (the history advances the block time explicitly)
// it asks the REAL bank keeper: balance, spendable balance; the staking keeper: bonded +
// unbonding; and demands  (balance - spendable) + delegated >= sum of the unreleased parts.
// It then executes bank sends on a fork of the state: spendable + 1 must fail, spendable may
// succeed; a violation is reported with the executed transfer.

import (
	"fmt"
	"math/big"
	"sort"
	"time"

	"cosmossdk.io/math"
	sdk "github.com/cosmos/cosmos-sdk/types"
	banktypes "github.com/cosmos/cosmos-sdk/x/bank/types"

	vestingtypes "github.com/haqq-network/haqq/x/vesting/types"
)

// lqSinkAddr receives the test transfers and the clawed-back coins; it is none of the four accounts.
var lqSinkAddr = func() sdk.AccAddress {
	b := make([]byte, 20)
	b[0] = 0xA0
	b[19] = 0x77
	return sdk.AccAddress(b)
}()

// lqStrict (-arg strict=1): also demand what is only tagged as a candidate finding otherwise
// (targets whose own vesting is still running, see check / record).
var lqStrict bool

// lqFunderAddr funds vesting accounts created by the real MsgConvertIntoVestingAccount (mkvest via=msg).
var lqFunderAddr = func() sdk.AccAddress {
	b := make([]byte, 20)
	b[0] = 0xA0
	b[19] = 0x78
	return sdk.AccAddress(b)
}()

type lqObl struct {
	Kind  string // own | share | liquidated
	Sign  int
	Start int64
	Ps    []lqP
	Step  int   // op index that created it
	T     int64 // block time of that op
	D     int   // liquid denom (share / liquidated)
}

func (o lqObl) unreleased(t int64) *big.Int {
	return new(big.Int).Sub(lqTotal(o.Ps), lqEv(o.Start, o.Ps, t))
}

type lqTimeOracle struct {
	class string // known-finding class of the violation reported (K18), "" = none
	obl      [lqNA][]lqObl
	ownVest  [lqNA][]lqP // vesting periods of the set-up op (only to recognise "own vesting still running")
	ownStart [lqNA]int64
	tmax     int64
	exempt   [lqNA]bool // clawed back while its own vesting was running (see record)
	checks   int
	sends    int
	tags     map[string]bool
}

func newLqTimeOracle(tags map[string]bool) *lqTimeOracle {
	return &lqTimeOracle{tmax: -1 << 62, tags: tags}
}

// record: called after a successful op with the state before and after.
func (o *lqTimeOracle) record(i int, op lqOp, pre, post *lqSnap, now int64) {
	switch op.Op {
	case "mkvest":
		o.obl[op.A] = append(o.obl[op.A], lqObl{Kind: "own", Sign: 1, Start: op.Start, Ps: op.Lock, Step: i, T: now})
		o.ownVest[op.A], o.ownStart[op.A] = op.Vest, op.Start
	case "liq":
		if den := post.Denoms[pre.Counter]; den != nil {
			o.obl[op.From] = append(o.obl[op.From], lqObl{Kind: "liquidated", Sign: -1, Start: den.Start, Ps: den.Ps, Step: i, T: now, D: pre.Counter})
		}
	case "redeem":
		dp, dq := pre.Denoms[op.D], post.Denoms[op.D]
		if dp == nil {
			return
		}
		rel := make([]lqP, len(dp.Ps))
		for k, p := range dp.Ps {
			a := new(big.Int).Set(p.A)
			if dq != nil && k < len(dq.Ps) {
				a.Sub(a, dq.Ps[k].A)
			}
			if a.Sign() < 0 {
				a = big.NewInt(0) // reported by the per-step oracle
			}
			rel[k] = lqP{p.L, a}
		}
		o.obl[op.To] = append(o.obl[op.To], lqObl{Kind: "share", Sign: 1, Start: dp.Start, Ps: rel, Step: i, T: now, D: op.D})
	case "clawback":
		// A clawback takes the unvested coins of the account's own grant.  With the own vesting
		// finished (every grant of a redeem is vested on arrival) there is nothing to take and
		// nothing changes.  With the own vesting still running at this moment (a predicate on the
		// inputs: the mkvest op and the block time) the clawback account caps the MERGED lockup
		// schedule by the vested total, own lockup events included: outside what C11 speaks about
		// (candidate finding, see check) — the account is exempt from the demand from here on.
		o.tags["target:after-clawback"] = true
		if o.ownVestingRunning(op.A, now) {
			o.exempt[op.A] = true
			o.tags["target:clawed-back-while-vesting"] = true
			kept := o.obl[op.A][:0:0] // the own grant demands nothing any more (strict mode: only the shares do)
			for _, ob := range o.obl[op.A] {
				if ob.Kind != "own" {
					kept = append(kept, ob)
				}
			}
			o.obl[op.A] = kept
			o.ownVest[op.A] = nil
		}
	}
}

func (o *lqTimeOracle) hasShare(a int) bool {
	for _, ob := range o.obl[a] {
		if ob.Kind == "share" {
			return true
		}
	}
	return false
}

// need: what the obligations of account a demand locked at time t; shares: the part of it that
// belongs to redeemed shares; next: the earliest release time > t of a share (0 = none).
func (o *lqTimeOracle) need(a int, t int64) (need, shares *big.Int, next int64, first *lqObl) {
	need, shares = big.NewInt(0), big.NewInt(0)
	for k := range o.obl[a] {
		ob := &o.obl[a][k]
		u := ob.unreleased(t)
		if ob.Sign < 0 {
			need.Sub(need, u)
			continue
		}
		need.Add(need, u)
		if ob.Kind == "share" {
			shares.Add(shares, u)
			at := ob.Start
			for _, p := range ob.Ps {
				at += p.L
				if at > t && p.A.Sign() > 0 && (next == 0 || at < next) {
					next, first = at, ob
				}
			}
		}
	}
	if need.Sign() < 0 {
		need = big.NewInt(0)
	}
	return
}

// ownVestingRunning: the account was set up with a vesting schedule that has not finished at t
// (a predicate on the input: the mkvest op).
func (o *lqTimeOracle) ownVestingRunning(a int, t int64) bool {
	v := o.ownVest[a]
	if v == nil {
		return false
	}
	return t <= o.ownStart[a] || lqEv(o.ownStart[a], v, t).Cmp(lqTotal(v)) != 0
}

// strongNeed: the shares' unreleased parts plus what the bank held locked of the own grant
// (original - min(unlocked, vested)); nil when the account liquidated something.
func (o *lqTimeOracle) strongNeed(a int, t int64) *big.Int {
	sum := big.NewInt(0)
	for _, ob := range o.obl[a] {
		switch ob.Kind {
		case "liquidated":
			return nil
		case "share":
			sum.Add(sum, ob.unreleased(t))
		case "own":
			free := lqEv(ob.Start, ob.Ps, t)
			if v := lqEv(o.ownStart[a], o.ownVest[a], t); v.Cmp(free) < 0 {
				free = v
			}
			sum.Add(sum, new(big.Int).Sub(lqTotal(ob.Ps), free))
		}
	}
	return sum
}

func lqTrySend(e *Env, a int, amt *big.Int) error {
	cctx, _ := e.Ctx.CacheContext()
	sub := &Env{App: e.App, Ctx: cctx, ValPub: e.ValPub}
	_, err := sub.runMsg(banktypes.NewMsgSend(addrN(a), lqSinkAddr, sdk.NewCoins(sdk.NewCoin(lqDenom, math.NewIntFromBigInt(amt)))))
	return err
}

// check: the obligations against the real bank keeper at the current block time of e.
func (o *lqTimeOracle) check(e *Env, i int, op lqOp) string {
	now := e.Ctx.BlockTime().Unix()
	if now < o.tmax {
		o.tags["time:went-back"] = true
		return "" // block time never decreases on a chain; obligations are about the future of a redeem
	}
	o.tmax = now
	for a := 0; a < lqNA; a++ {
		if !o.hasShare(a) {
			continue
		}
		need, shares, next, first := o.need(a, now)
		bal := e.App.BankKeeper.GetBalance(e.Ctx, addrN(a), lqDenom).Amount.BigInt()
		sp := e.App.BankKeeper.SpendableCoin(e.Ctx, addrN(a), lqDenom).Amount.BigInt()
		del := e.App.StakingKeeper.GetDelegatorBonded(e.Ctx, addrN(a)).Add(e.App.StakingKeeper.GetDelegatorUnbonding(e.Ctx, addrN(a))).BigInt()
		o.checks++
		if need.Sign() > 0 {
			o.tags["timecheck:need>0"] = true
		} else {
			o.tags["timecheck:need=0"] = true
		}
		if del.Sign() > 0 {
			o.tags["timecheck:target-delegated"] = true
		}
		// where the block time stands: after the end of the account's own schedule / of one token's
		// share while another share is still running
		var minEnd, maxEnd int64
		for k, ob := range o.obl[a] {
			if ob.Sign < 0 {
				continue
			}
			end := ob.Start + lqTotalLen(ob.Ps)
			if k == 0 || end < minEnd {
				minEnd = end
			}
			if end > maxEnd {
				maxEnd = end
			}
			if ob.Kind == "own" && end <= now && shares.Sign() > 0 {
				o.tags["timecheck:after-own-end-share-running"] = true
			}
		}
		if minEnd <= now && now < maxEnd && shares.Sign() > 0 {
			o.tags["timecheck:between-two-ends"] = true
		}
		if sp.Sign() < 0 || sp.Cmp(bal) > 0 {
			return fmt.Sprintf("account %d: spendable balance %s outside [0, balance %s]", a, sp, bal)
		}
		// executed transfers on a fork: one more than spendable must fail, spendable may succeed
		eff := new(big.Int).Set(sp) // the amount that really can be sent away
		more := new(big.Int).Add(sp, big.NewInt(1))
		o.sends++
		if err := lqTrySend(e, a, more); err == nil {
			eff = more
		}
		sent := "nothing is spendable"
		if sp.Sign() > 0 {
			o.sends++
			if err := lqTrySend(e, a, sp); err != nil {
				sent = fmt.Sprintf("bank send of %s aISLM refused: %v", sp, err)
				if eff.Cmp(sp) == 0 {
					eff = big.NewInt(0)
				}
			} else {
				sent = fmt.Sprintf("bank MsgSend of %s aISLM executed on a fork of the state", eff)
			}
		}
		if eff.Cmp(more) == 0 {
			sent = fmt.Sprintf("bank MsgSend of %s aISLM (spendable balance + 1) executed on a fork of the state", more)
		}
		retained := new(big.Int).Add(new(big.Int).Sub(bal, eff), del)
		if o.exempt[a] && retained.Cmp(need) < 0 {
			// known finding K18b: the class is a predicate on the inputs (a clawback on an account that received a
			// redeemed share while its own vesting was still running)
			o.tags["k18:clawback-while-vesting-unlocks-redeemed-share"] = true
			if o.class == "" {
				o.class = "liquid:clawback-while-own-vesting-runs-unlocks-redeemed-share"
			}
		}
		if retained.Cmp(need) < 0 {
			n := new(big.Int).Sub(need, retained)
			if n.Cmp(shares) > 0 {
				n = shares
			}
			early, from := int64(0), ""
			if first != nil {
				early = next - now
				from = fmt.Sprintf(" (share of aLIQUID%d redeemed at step %d, t=%d; its next release is at t=%d)", first.D, first.Step, first.T, next)
			}
			return fmt.Sprintf("%s aISLM of the redeemed lockup became spendable %d seconds before their original release: at block time %d account %d holds %s aISLM "+
				"(+ %s delegated), the lockup obligations demand %s locked (redeemed shares %s), but %s can be sent away — %s%s",
				n, early, now, a, bal, del, need, shares, eff, sent, from)
		}
		// Stronger reading, NOT demanded: the account's own coins that were unvested (hence not
		// spendable) before the redeem.  A clawback account's spendable amount is min(unlocked,
		// vested) over the MERGED schedules, so coins of a share that are vested-but-locked and own
		// coins that are unlocked-but-unvested free each other (candidate finding; the class is a
		// predicate on the inputs: the target's own vesting schedule is still running).
		if o.ownVestingRunning(a, now) {
			o.tags["timecheck:own-vesting-running"] = true
			if strong := o.strongNeed(a, now); strong != nil && retained.Cmp(strong) < 0 {
				o.tags["k18:redeem-frees-unvested-own-coins"] = true
				if lqStrict {
					if o.class == "" {
						o.class = "liquid:redeem-into-account-with-running-vesting-frees-coins"
					}
					return fmt.Sprintf("%s aISLM that the bank held back before the redeem became spendable: at block time %d account %d holds %s aISLM "+
						"(+ %s delegated); its own grant (original - min(unlocked, vested)) plus the unreleased redeemed shares (%s) demand %s locked, but %s can be sent away — %s",
						new(big.Int).Sub(strong, retained), now, a, bal, del, shares, strong, eff, sent)
				}
			}
		}
	}
	return ""
}

// lqLockedRow: ClawbackVestingAccount.LockedCoins of the four accounts at time t (0 for an ordinary account).
func lqLockedRow(e *Env, t int64) []*big.Int {
	row := make([]*big.Int, lqNA)
	for a := 0; a < lqNA; a++ {
		row[a] = big.NewInt(0)
		if va, ok := e.App.AccountKeeper.GetAccount(e.Ctx, addrN(a)).(*vestingtypes.ClawbackVestingAccount); ok {
			row[a] = va.LockedCoins(time.Unix(t, 0).UTC()).AmountOf(lqDenom).BigInt()
		}
	}
	return row
}

// ---------------------------------------------------------------- probe times
// lqProbeTimes: every event boundary (-1/0/+1) of every vesting record and liquid denom of the
// state, the end of every account (-1/0/+1) and a time beyond everything; only times >= from.
func lqProbeTimes(s *lqSnap, extra map[int64]bool, from int64, r *Rng, max int, beyond bool) []int64 {
	set := map[int64]bool{}
	for t := range extra {
		set[t] = true
	}
	last := from
	for a := 0; a < lqNA; a++ {
		if v := s.Accts[a]; v != nil {
			lqBoundaries(set, v.Start, v.Lock)
			for _, d := range []int64{-1, 0, 1} {
				set[v.End+d] = true
			}
		}
	}
	for _, den := range s.Denoms {
		lqBoundaries(set, den.Start, den.Ps)
		set[den.End] = true
	}
	ts := []int64{}
	for t := range set {
		if t >= from {
			ts = append(ts, t)
			if t > last {
				last = t
			}
		}
	}
	sort.Slice(ts, func(i, j int) bool { return ts[i] < ts[j] })
	for len(ts) > max { // thin out at random, keep the order
		k := r.Intn(len(ts))
		ts = append(ts[:k], ts[k+1:]...)
	}
	if !beyond {
		return ts
	}
	return append(ts, last+1000+int64(r.Intn(5000)))
}

// ---------------------------------------------------------------- scenario generator
// Several liquid tokens cut from schedules with different ends are redeemed (partially / fully,
// in both orders) into one account which is fresh, ordinary, an existing vesting account ending
// earlier / at the same time / later than the tokens (with or without own locked coins, sometimes
// delegating, sometimes clawed back), the holder or the liquidator itself.  Times only move forward.
type lqScen struct {
	r       *Rng
	bits    int
	cur     int64
	stages  []func(s *lqSnap) []lqOp
	pending []lqOp
	target  int
	holder  int
	seen    map[int64]bool // event times of every denom ever seen (kept after the denom is deleted)
	kind    string
}

func (g *lqScen) amount() *big.Int {
	v := new(big.Int).Lsh(big.NewInt(1), uint(g.bits-1))
	return v.Add(v, g.r.Big(g.bits-1))
}

func (g *lqScen) schedule(np int, span int64) []lqP {
	r := g.r
	lock := []lqP{}
	rest := span
	for i := 0; i < np; i++ {
		l := rest / int64(np-i)
		if i < np-1 && l > 2 {
			l = 1 + int64(r.Intn(int(l)))
		}
		if i == np-1 {
			l = rest
		}
		if l < 0 {
			l = 0
		}
		rest -= l
		am := g.amount()
		if r.Chance(10) {
			am = big.NewInt(int64(1 + r.Intn(3)))
		}
		lock = append(lock, lqP{l, am})
	}
	return lock
}

func (g *lqScen) step(max int) int64 {
	g.cur += int64(g.r.Intn(max + 1))
	return g.cur
}

func (g *lqScen) note(s *lqSnap) {
	for _, den := range s.Denoms {
		lqBoundaries(g.seen, den.Start, den.Ps)
	}
}

// probe: final = all events from now on and a time beyond them; otherwise a few consecutive
// events ahead (the history continues after the last of them)
func (g *lqScen) probe(s *lqSnap, final bool) []lqOp {
	g.note(s)
	if final {
		return []lqOp{{Op: "probe", Ts: lqProbeTimes(s, g.seen, g.cur, g.r, 40, true)}}
	}
	ts := lqProbeTimes(s, g.seen, g.cur, g.r, 1000, false)
	if len(ts) == 0 {
		return nil
	}
	j := 0
	if g.r.Chance(30) {
		j = g.r.Intn(len(ts))
	}
	k := j + 1 + g.r.Intn(4)
	if k > len(ts) {
		k = len(ts)
	}
	g.cur = ts[k-1]
	return []lqOp{{Op: "probe", Ts: ts[j:k]}}
}

func newLqScen(r *Rng) *lqScen {
	g := &lqScen{r: r, bits: []int{20, 64, 120}[r.Intn(3)], cur: lqT0 + int64(r.Intn(50)), seen: map[int64]bool{}}
	g.holder = 2
	// the two sources: account 0 = schedule A, account 1 = schedule B
	spanA := int64(200 + r.Intn(3000))
	var spanB int64
	switch r.Intn(4) {
	case 0:
		spanB = spanA // same end (if the starts agree)
	case 1:
		spanB = spanA + int64(1+r.Intn(3000))
	default:
		spanB = 50 + int64(r.Intn(int(spanA)))
	}
	startA := lqT0 - 1 - int64(r.Intn(40))
	startB := startA
	if r.Chance(40) {
		startB = lqT0 - 1 - int64(r.Intn(40))
	}
	lockA, lockB := g.schedule(1+r.Intn(4), spanA), g.schedule(1+r.Intn(4), spanB)
	endA, endB := startA+spanA, startB+spanB
	lo, hi := endA, endB
	if lo > hi {
		lo, hi = hi, lo
	}
	instant := func(lock []lqP) []lqP { return []lqP{{0, lqTotal(lock)}} }
	setup := []lqOp{
		{Op: "mkvest", A: 0, Start: startA, Lock: lockA, Vest: instant(lockA)},
		{Op: "mkvest", A: 1, Start: startB, Lock: lockB, Vest: instant(lockB)},
	}
	// the redeem target
	switch k := r.Intn(100); {
	case k < 30:
		g.kind, g.target = "fresh", 3
	case k < 38:
		g.kind, g.target = "holder", 2
	case k < 48:
		g.kind, g.target = "liquidator", r.Intn(2)
	default:
		g.kind, g.target = "vesting", 3
		var end int64
		switch r.Intn(6) {
		case 0: // over before any token is redeemed: no locked coins of its own
			end = lqT0 - 1 - int64(r.Intn(20))
			g.kind = "vesting-all-past"
		case 1:
			end = lo - 1 - int64(r.Intn(int(lo-lqT0)/2+1)) // earlier than both tokens
		case 2:
			end = lo + int64(r.Intn(int(hi-lo)+1)) // between the two ends
		case 3:
			end = []int64{lo, hi}[r.Intn(2)] // equal to a token's end
		case 4:
			end = hi + 1 + int64(r.Intn(3000)) // later than both
		default:
			end = lqT0 + 60 + int64(r.Intn(400)) // ends while the history runs
		}
		span := int64(30 + r.Intn(2000))
		lock := g.schedule(1+r.Intn(3), span)
		vest := instant(lock)
		if r.Chance(12) { // own vesting still running (outside the strong reading, see check)
			tot := lqTotal(lock)
			part := r.Below(new(big.Int).Add(tot, big.NewInt(1)))
			vest = []lqP{{int64(10 + r.Intn(200)), part}, {span + int64(r.Intn(4000)), new(big.Int).Sub(tot, part)}}
			g.kind = "vesting-unvested"
		}
		setup = append(setup, lqOp{Op: "mkvest", A: 3, Start: end - span, Lock: lock, Vest: vest})
	}
	if r.Chance(35) {
		setup = append(setup, lqOp{Op: "fund", A: g.target, X: r.Big(g.bits).String()})
	}
	g.stages = append(g.stages, func(*lqSnap) []lqOp { return setup })

	// liquidations: one token from each source (sometimes a second one from a source, later)
	liq := func(from int) func(s *lqSnap) []lqOp {
		return func(s *lqSnap) []lqOp {
			t := g.step(25)
			avail := lqLockedAt(s.Accts[from], t)
			if avail.Sign() <= 0 {
				return nil
			}
			x := new(big.Int).Set(avail)
			if r.Chance(70) {
				x = new(big.Int).Add(r.Below(avail), big.NewInt(1))
			}
			to := g.holder
			if r.Chance(12) {
				to = from
			}
			return []lqOp{{Op: "liq", T: t, From: from, To: to, X: x.String()}}
		}
	}
	order := []int{0, 1}
	if r.Bool() {
		order = []int{1, 0}
	}
	for _, a := range order {
		g.stages = append(g.stages, liq(a))
	}
	if r.Chance(25) {
		g.stages = append(g.stages, liq(r.Intn(2)))
	}
	if r.Chance(25) { // part of a token changes hands first
		g.stages = append(g.stages, func(s *lqSnap) []lqOp {
			for d := 0; d < s.Counter; d++ {
				for a := 0; a < lqNA; a++ {
					if h := s.hold(d, a); h.Sign() > 0 && r.Chance(60) {
						to := r.Intn(lqNA)
						via := "send"
						if to == a || r.Chance(40) {
							via = "multisend"
						}
						return []lqOp{{Op: "xfer", From: a, To: to, D: d, X: new(big.Int).Add(r.Below(h), big.NewInt(1)).String(), Via: via}}
					}
				}
			}
			return nil
		})
	}
	// redeems: the tokens in both orders, partially / fully, probes in between
	redeem := func(s *lqSnap) []lqOp {
		type hd struct{ d, a int }
		hs := []hd{}
		for d := 0; d < s.Counter; d++ {
			for a := 0; a < lqNA; a++ {
				if s.hold(d, a).Sign() > 0 {
					hs = append(hs, hd{d, a})
				}
			}
		}
		if len(hs) == 0 {
			return nil
		}
		h := hs[r.Intn(len(hs))]
		avail := s.hold(h.d, h.a)
		x := new(big.Int).Set(avail)
		if r.Chance(50) {
			x = new(big.Int).Add(r.Below(avail), big.NewInt(1))
		}
		t := g.step(40)
		if r.Chance(15) { // exactly at / next to an event of the token
			if den := s.Denoms[h.d]; den != nil && len(den.Ps) > 0 {
				at := den.Start
				for _, p := range den.Ps[:1+r.Intn(len(den.Ps))] {
					at += p.L
				}
				if at+1 >= g.cur {
					t = at + int64(r.Intn(3)) - 1
					if t < g.cur {
						t = g.cur
					}
					g.cur = t
				}
			}
		}
		to := g.target
		if r.Chance(8) {
			to = r.Intn(lqNA)
		}
		g.note(s)
		return []lqOp{{Op: "redeem", T: t, From: h.a, To: to, D: h.d, X: x.String()}}
	}
	nRedeem := 2 + r.Intn(3)
	extra := r.Intn(100)
	for k := 0; k < nRedeem; k++ {
		g.stages = append(g.stages, redeem)
		if r.Chance(45) {
			g.stages = append(g.stages, func(s *lqSnap) []lqOp { return g.probe(s, false) })
		}
		if k == 0 && extra < 14 { // the target delegates part of what it holds
			g.stages = append(g.stages, func(s *lqSnap) []lqOp {
				bal := s.Bank[g.target]
				if bal.Sign() <= 0 {
					return nil
				}
				return []lqOp{{Op: "delegate", A: g.target, T: g.step(10), X: new(big.Int).Add(r.Below(bal), big.NewInt(1)).String()}}
			})
		}
		if k == 0 && extra >= 14 && extra < 22 { // the funder claws back
			g.stages = append(g.stages, func(s *lqSnap) []lqOp {
				return []lqOp{{Op: "clawback", A: g.target, T: g.step(10)}}
			})
		}
	}
	g.stages = append(g.stages, func(s *lqSnap) []lqOp { return g.probe(s, true) })
	return g
}

func (g *lqScen) next(i int, s *lqSnap) (lqOp, bool) {
	for len(g.pending) == 0 {
		if len(g.stages) == 0 || i > 40 {
			return lqOp{}, false
		}
		f := g.stages[0]
		g.stages = g.stages[1:]
		g.pending = f(s)
	}
	op := g.pending[0]
	g.pending = g.pending[1:]
	return op, true
}
