package main

// Driver "burns" (property C14): on a real app, histories of validator
// creation / delegation / unbonding / redelegation followed by slashes
// (StakingKeeper.Slash directly, double-sign evidence through the evidence
// module's BeginBlocker, downtime through the slashing module's BeginBlocker),
// governance proposals with deposits that are vetoed / fail quorum / never
// reach the minimum deposit / pass (gov EndBlocker), and burns and mints by
// other modules (EVM SetBalance, direct BurnCoins of the keeper every other
// module holds).  Around every event: supply, community pool, balances of all
// module accounts and users.  Only the keepers of the application are driven;
// which bank keeper staking and gov hold is exactly what is observed.

import (
	"encoding/json"
	"errors"
	"fmt"
	"math/big"
	"sort"
	"strings"
	"time"

	sdkmath "cosmossdk.io/math"
	abci "github.com/cometbft/cometbft/abci/types"
	"github.com/cosmos/cosmos-sdk/crypto/keys/ed25519"
	cryptotypes "github.com/cosmos/cosmos-sdk/crypto/types"
	sdk "github.com/cosmos/cosmos-sdk/types"
	sdkerrors "github.com/cosmos/cosmos-sdk/types/errors"
	authtypes "github.com/cosmos/cosmos-sdk/x/auth/types"
	distrtypes "github.com/cosmos/cosmos-sdk/x/distribution/types"
	"github.com/cosmos/cosmos-sdk/x/evidence"
	"github.com/cosmos/cosmos-sdk/x/gov"
	govtypes "github.com/cosmos/cosmos-sdk/x/gov/types"
	govv1 "github.com/cosmos/cosmos-sdk/x/gov/types/v1"
	"github.com/cosmos/cosmos-sdk/x/slashing"
	slashingtypes "github.com/cosmos/cosmos-sdk/x/slashing/types"
	stakingtypes "github.com/cosmos/cosmos-sdk/x/staking/types"
	ibctransfertypes "github.com/cosmos/ibc-go/v7/modules/apps/transfer/types"
	"github.com/ethereum/go-ethereum/common"

	"github.com/haqq-network/haqq/testutil"
	coinomicstypes "github.com/haqq-network/haqq/x/coinomics/types"
	erc20types "github.com/haqq-network/haqq/x/erc20/types"
	evmtypes "github.com/haqq-network/haqq/x/evm/types"
	liquidvestingtypes "github.com/haqq-network/haqq/x/liquidvesting/types"
	ucdaotypes "github.com/haqq-network/haqq/x/ucdao/types"
	vestingtypes "github.com/haqq-network/haqq/x/vesting/types"
)

func init() { register("burns", burnsDriver) }

const (
	bnSlots = 28 // 16 module slots + 12 users (Coq: NACC)
	bnUsers = 12
	bnDen   = 5 // Coq: NDEN
	bnVals  = 4
)

// index order = string order (sdk.Coins sort order)
var bnDenoms = []string{"aISLM", "aLIQUID0", "erc20/unused", "uatom", "utest"}

// slots 0..11 as in coq/Bank/BurnModel.v
var bnModules = []string{govtypes.ModuleName, stakingtypes.BondedPoolName, stakingtypes.NotBondedPoolName,
	distrtypes.ModuleName, evmtypes.ModuleName, erc20types.ModuleName, liquidvestingtypes.ModuleName,
	ibctransfertypes.ModuleName, coinomicstypes.ModuleName, authtypes.FeeCollectorName, vestingtypes.ModuleName,
	ucdaotypes.ModuleName}

const (
	slGov = iota
	slBonded
	slNotBonded
	slDistr
	slEvm
)

func bnSlotAddr(i int) sdk.AccAddress {
	if i < len(bnModules) {
		return authtypes.NewModuleAddress(bnModules[i])
	}
	if i < 16 {
		return nil
	}
	return addrN(i - 16)
}

type burnOp struct {
	Op    string    `json:"op"`
	A     int       `json:"a,omitempty"` // user
	V     int       `json:"v,omitempty"` // validator (operator = user V)
	W     int       `json:"w,omitempty"` // destination validator / proposal index / module slot
	Amt   string    `json:"amt,omitempty"`
	Frac  string    `json:"frac,omitempty"` // sdk.Dec in 1e-18 units
	Frac2 string    `json:"frac2,omitempty"`
	H     int       `json:"h,omitempty"`   // infraction height = current height - H
	Pow   string    `json:"pow,omitempty"` // reported power ("" = the validator's current consensus power)
	DT    int       `json:"dt,omitempty"`  // seconds
	Opt   int       `json:"opt,omitempty"`
	Flags int       `json:"flags,omitempty"` // gov: bit0 BurnVoteVeto, bit1 BurnVoteQuorum, bit2 BurnProposalDepositPrevote
	Coins []daoCoin `json:"coins,omitempty"`
}

type burnInput struct {
	Ops []burnOp `json:"ops"`
}

type bnSnap struct {
	Bal    [bnSlots][bnDen]*big.Int
	Supply [bnDen]*big.Int
	Pool   [bnDen]*big.Int // 1e-18 units
	// staking bookkeeping (tags only)
	ValTokens [bnVals]*big.Int
	UBD       *big.Int
}

type bnVal struct {
	created bool
	pk      cryptotypes.PubKey
	cons    sdk.ConsAddress
	oper    sdk.ValAddress
}

type bnEnv struct {
	*Env
	vals  [bnVals]bnVal
	props []uint64
}

func bnCoins(cs []daoCoin) sdk.Coins {
	out := sdk.Coins{}
	for _, c := range cs {
		out = append(out, sdk.Coin{Denom: bnDenoms[c.D], Amount: sdkmath.NewIntFromBigInt(c.V)})
	}
	return out
}

func (e *bnEnv) snapshot() bnSnap {
	var s bnSnap
	bk := e.App.BankKeeper
	for i := 0; i < bnSlots; i++ {
		a := bnSlotAddr(i)
		for d := 0; d < bnDen; d++ {
			if a == nil {
				s.Bal[i][d] = big.NewInt(0)
			} else {
				s.Bal[i][d] = bk.GetBalance(e.Ctx, a, bnDenoms[d]).Amount.BigInt()
			}
		}
	}
	fp := e.App.DistrKeeper.GetFeePool(e.Ctx)
	for d := 0; d < bnDen; d++ {
		s.Supply[d] = bk.GetSupply(e.Ctx, bnDenoms[d]).Amount.BigInt()
		s.Pool[d] = fp.CommunityPool.AmountOf(bnDenoms[d]).BigInt()
	}
	s.UBD = big.NewInt(0)
	for v := 0; v < bnVals; v++ {
		s.ValTokens[v] = big.NewInt(0)
		if !e.vals[v].created {
			continue
		}
		if val, ok := e.App.StakingKeeper.GetValidator(e.Ctx, e.vals[v].oper); ok {
			s.ValTokens[v] = val.Tokens.BigInt()
		}
		for _, u := range e.App.StakingKeeper.GetUnbondingDelegationsFromValidator(e.Ctx, e.vals[v].oper) {
			for _, en := range u.Entries {
				s.UBD.Add(s.UBD, en.Balance.BigInt())
			}
		}
	}
	return s
}

func (s *bnSnap) coq() string {
	bal, sup, pool := []string{}, []string{}, []string{}
	for i := 0; i < bnSlots; i++ {
		for d := 0; d < bnDen; d++ {
			if s.Bal[i][d].Sign() != 0 {
				bal = append(bal, fmt.Sprintf("(%d%%N,%d%%N,%s)", i, d, coqZ(s.Bal[i][d])))
			}
		}
	}
	for d := 0; d < bnDen; d++ {
		if s.Supply[d].Sign() != 0 {
			sup = append(sup, fmt.Sprintf("(%d%%N,%s)", d, coqZ(s.Supply[d])))
		}
		if s.Pool[d].Sign() != 0 {
			pool = append(pool, fmt.Sprintf("(%d%%N,%s)", d, coqZ(s.Pool[d])))
		}
	}
	return fmt.Sprintf("(mksnap %s %s %s)", coqList(bal), coqList(sup), coqList(pool))
}

type bnStepObs struct {
	Op     string     `json:"op"`
	Err    string     `json:"err,omitempty"`
	Burned [][]string `json:"redirected,omitempty"` // [module, denom, amount] that left gov / the pools without a recipient
	DSup   [][]string `json:"d_supply,omitempty"`
	DPool  [][]string `json:"d_pool,omitempty"`
	DDistr [][]string `json:"d_distr,omitempty"`
}

// ---------------------------------------------------------------- running one op
// atomic runs f on a cached context written back only on success (a keeper
// panic, e.g. inside Slash, aborts the block in the real node).
func (e *bnEnv) atomic(f func(ctx sdk.Context) error) (err error) {
	cctx, write := e.Ctx.CacheContext()
	defer func() {
		if r := recover(); r != nil {
			err = fmt.Errorf("panic: %v", r)
		}
	}()
	if err = f(cctx); err == nil {
		write()
	}
	return err
}

func (e *bnEnv) tick(dt int) {
	if dt <= 0 {
		dt = 5
	}
	e.Ctx = e.Ctx.WithBlockHeight(e.Ctx.BlockHeight() + 1).WithBlockTime(e.Ctx.BlockTime().Add(time.Duration(dt) * time.Second))
}

func bnDec(s string) sdk.Dec {
	v, ok := new(big.Int).SetString(s, 10)
	if !ok {
		v = big.NewInt(0)
	}
	return sdk.NewDecFromBigIntWithPrec(v, 18)
}

func (e *bnEnv) power(v int, pow string) int64 {
	if pow != "" {
		p, _ := new(big.Int).SetString(pow, 10)
		if p != nil && p.IsInt64() {
			return p.Int64()
		}
	}
	val, ok := e.App.StakingKeeper.GetValidator(e.Ctx, e.vals[v].oper)
	if !ok {
		return 0
	}
	return val.ConsensusPower(sdk.DefaultPowerReduction)
}

func (e *bnEnv) apply(op burnOp) error {
	sk := e.App.StakingKeeper
	aISLM := func(s string) sdk.Coin { return sdk.NewCoin(bnDenoms[0], sdkmath.NewIntFromBigInt(bigOf(s))) }
	switch op.Op {
	case "fund":
		return testutil.FundAccount(e.Ctx, e.App.BankKeeper, addrN(op.A), bnCoins(op.Coins))
	case "fundmod":
		return testutil.FundModuleAccount(e.Ctx, e.App.BankKeeper, bnModules[op.W], bnCoins(op.Coins))
	case "stakeparams":
		p := sk.GetParams(e.Ctx)
		p.UnbondingTime = time.Duration(op.DT) * time.Second
		return sk.SetParams(e.Ctx, p)
	case "slashparams":
		p := slashingtypes.NewParams(int64(op.H), sdk.NewDecWithPrec(5, 1), 60*time.Second, bnDec(op.Frac), bnDec(op.Frac2))
		return e.App.SlashingKeeper.SetParams(e.Ctx, p)
	case "govparams":
		p := govv1.NewParams(bnCoins(op.Coins), 200*time.Second, 300*time.Second, "0.334", "0.5", "0.334", "0",
			op.Flags&4 != 0, op.Flags&2 != 0, op.Flags&1 != 0)
		return e.App.GovKeeper.SetParams(e.Ctx, p)
	case "createval":
		v := &e.vals[op.V]
		if v.created {
			return fmt.Errorf("validator exists")
		}
		pk := ed25519.GenPrivKeyFromSecret([]byte(fmt.Sprintf("verif-val-%d", op.V))).PubKey()
		oper := sdk.ValAddress(addrN(op.V))
		msg, err := stakingtypes.NewMsgCreateValidator(oper, pk, aISLM(op.Amt), stakingtypes.NewDescription(fmt.Sprintf("v%d", op.V), "", "", "", ""),
			stakingtypes.NewCommissionRates(sdk.NewDecWithPrec(1, 1), sdk.NewDecWithPrec(2, 1), sdk.NewDecWithPrec(1, 2)), sdkmath.OneInt())
		if err != nil {
			return err
		}
		if _, err := e.runMsg(msg); err != nil {
			return err
		}
		v.created, v.pk, v.cons, v.oper = true, pk, sdk.ConsAddress(pk.Address()), oper
		return nil
	case "delegate":
		_, err := e.runMsg(stakingtypes.NewMsgDelegate(addrN(op.A), sdk.ValAddress(addrN(op.V)), aISLM(op.Amt)))
		return err
	case "undelegate":
		_, err := e.runMsg(stakingtypes.NewMsgUndelegate(addrN(op.A), sdk.ValAddress(addrN(op.V)), aISLM(op.Amt)))
		return err
	case "redelegate":
		_, err := e.runMsg(stakingtypes.NewMsgBeginRedelegate(addrN(op.A), sdk.ValAddress(addrN(op.V)), sdk.ValAddress(addrN(op.W)), aISLM(op.Amt)))
		return err
	case "endblock":
		return e.atomic(func(ctx sdk.Context) error { sk.BlockValidatorUpdates(ctx); return nil })
	case "slash":
		v := e.vals[op.V]
		if !v.created {
			return fmt.Errorf("no validator")
		}
		pw := e.power(op.V, op.Pow)
		return e.atomic(func(ctx sdk.Context) error {
			sk.Slash(ctx, v.cons, ctx.BlockHeight()-int64(op.H), pw, bnDec(op.Frac))
			return nil
		})
	case "doublesign":
		v := e.vals[op.V]
		if !v.created {
			return fmt.Errorf("no validator")
		}
		pw := e.power(op.V, op.Pow)
		req := abci.RequestBeginBlock{ByzantineValidators: []abci.Misbehavior{{
			Type: abci.MisbehaviorType_DUPLICATE_VOTE, Validator: abci.Validator{Address: v.cons, Power: pw},
			Height: e.Ctx.BlockHeight() - int64(op.H), Time: e.Ctx.BlockTime().Add(-time.Duration(op.H*5) * time.Second), TotalVotingPower: pw,
		}}}
		return e.atomic(func(ctx sdk.Context) error { evidence.BeginBlocker(ctx, req, e.App.EvidenceKeeper); return nil })
	case "downtime":
		v := e.vals[op.V]
		if !v.created {
			return fmt.Errorf("no validator")
		}
		pw := e.power(op.V, op.Pow)
		n := int(e.App.SlashingKeeper.SignedBlocksWindow(e.Ctx)) + 3
		for i := 0; i < n; i++ {
			if sk.IsValidatorJailed(e.Ctx, v.cons) {
				break
			}
			if _, ok := e.App.SlashingKeeper.GetValidatorSigningInfo(e.Ctx, v.cons); !ok {
				return fmt.Errorf("no signing info (validator never bonded)")
			}
			req := abci.RequestBeginBlock{LastCommitInfo: abci.CommitInfo{Votes: []abci.VoteInfo{{
				Validator: abci.Validator{Address: v.cons, Power: pw}, SignedLastBlock: false}}}}
			if err := e.atomic(func(ctx sdk.Context) error { slashing.BeginBlocker(ctx, req, e.App.SlashingKeeper); return nil }); err != nil {
				return err
			}
			e.tick(5)
		}
		return nil
	case "submit":
		msg, err := govv1.NewMsgSubmitProposal(nil, bnCoins(op.Coins), addrN(op.A).String(), "m", fmt.Sprintf("p%d", len(e.props)), "s")
		if err != nil {
			return err
		}
		res, err := e.runMsg(msg)
		if err != nil {
			return err
		}
		var r govv1.MsgSubmitProposalResponse
		if len(res.MsgResponses) == 1 {
			if err := e.App.AppCodec().Unmarshal(res.MsgResponses[0].Value, &r); err != nil {
				return err
			}
		}
		e.props = append(e.props, r.ProposalId)
		return nil
	case "deposit":
		if op.W >= len(e.props) {
			return fmt.Errorf("no proposal")
		}
		_, err := e.runMsg(govv1.NewMsgDeposit(addrN(op.A), e.props[op.W], bnCoins(op.Coins)))
		return err
	case "vote":
		if op.W >= len(e.props) {
			return fmt.Errorf("no proposal")
		}
		_, err := e.runMsg(govv1.NewMsgVote(addrN(op.A), e.props[op.W], govv1.VoteOption(op.Opt), ""))
		return err
	case "govend":
		e.Ctx = e.Ctx.WithBlockTime(e.Ctx.BlockTime().Add(time.Duration(op.DT) * time.Second))
		return e.atomic(func(ctx sdk.Context) error { gov.EndBlocker(ctx, &e.App.GovKeeper); return nil })
	case "evmburn", "evmmint":
		addr := common.BytesToAddress(addrN(op.A))
		cur := e.App.BankKeeper.GetBalance(e.Ctx, addrN(op.A), bnDenoms[0]).Amount.BigInt()
		if op.Op == "evmburn" {
			cur.Sub(cur, bigOf(op.Amt))
		} else {
			cur.Add(cur, bigOf(op.Amt))
		}
		return e.atomic(func(ctx sdk.Context) error { return e.App.EvmKeeper.SetBalance(ctx, addr, cur) })
	case "bankburn":
		return e.atomic(func(ctx sdk.Context) error {
			return e.App.BankKeeper.BurnCoins(ctx, bnModules[op.W], bnCoins(op.Coins))
		})
	}
	return fmt.Errorf("bad op %q", op.Op)
}

func bnErrCode(err error) int {
	switch {
	case err == nil:
		return 0
	case errors.Is(err, sdkerrors.ErrInvalidCoins):
		return 1
	case errors.Is(err, sdkerrors.ErrInsufficientFunds):
		return 2
	case strings.HasPrefix(err.Error(), "panic:"):
		return 3
	}
	return 9
}

// ---------------------------------------------------------------- oracle + model ops per event
func bnCoqCoins(xs [bnDen]*big.Int) (string, bool) {
	out := []string{}
	for d := 0; d < bnDen; d++ {
		if xs[d] != nil && xs[d].Sign() != 0 {
			out = append(out, fmt.Sprintf("(%d%%N,%s)", d, coqZ(xs[d])))
		}
	}
	return coqList(out), len(out) > 0
}

func bnCoqCoinList(cs []daoCoin) string {
	out := []string{}
	for _, c := range cs {
		out = append(out, fmt.Sprintf("(%d%%N,%s)", c.D, coqZ(c.V)))
	}
	return coqList(out)
}

func zeroVec() [bnDen]*big.Int {
	var v [bnDen]*big.Int
	for d := range v {
		v[d] = big.NewInt(0)
	}
	return v
}

func sub(a, b *big.Int) *big.Int { return new(big.Int).Sub(a, b) }

type bnEvent struct {
	coqOps  []string
	res     int
	oracle  string // "" = property holds on this event
	redirX  *big.Int
	ordX    *big.Int
	hasProp bool // the property says something about this event
	tags    []string
}

// bnJudge evaluates property C14 on one event of the implementation (pre ->
// post) and derives the bank calls the event consists of (for the model).
func bnJudge(op burnOp, err error, pre, post *bnSnap) bnEvent {
	ev := bnEvent{res: 0, redirX: big.NewInt(0), ordX: big.NewInt(0)}
	dSup, dPool, dDistr := zeroVec(), zeroVec(), zeroVec()
	for d := 0; d < bnDen; d++ {
		dSup[d] = sub(post.Supply[d], pre.Supply[d])
		dPool[d] = sub(post.Pool[d], pre.Pool[d])
		dDistr[d] = sub(post.Bal[slDistr][d], pre.Bal[slDistr][d])
	}
	// expected deltas per the property, given x (redirected) and y (ordinary burn, negative for mint)
	demand := func(x, y [bnDen]*big.Int, what string) {
		for d := 0; d < bnDen; d++ {
			if x[d].Sign() < 0 {
				ev.oracle = fmt.Sprintf("%s: %s %s appeared in a module that only burns", what, new(big.Int).Neg(x[d]), bnDenoms[d])
				return
			}
			wantSup := new(big.Int).Neg(y[d])
			if dSup[d].Cmp(wantSup) != 0 {
				ev.oracle = fmt.Sprintf("%s: total supply of %s changed by %s, the property demands %s (redirected amount %s)", what, bnDenoms[d], dSup[d], wantSup, x[d])
				return
			}
			wantPool := new(big.Int).Mul(x[d], e18)
			if dPool[d].Cmp(wantPool) != 0 {
				ev.oracle = fmt.Sprintf("%s: community pool of %s changed by %s (1e-18 units), the property demands %s", what, bnDenoms[d], dPool[d], wantPool)
				return
			}
			if dDistr[d].Cmp(x[d]) != 0 {
				ev.oracle = fmt.Sprintf("%s: distribution module account balance of %s changed by %s, the property demands %s", what, bnDenoms[d], dDistr[d], x[d])
				return
			}
		}
	}
	switch op.Op {
	case "slash", "doublesign", "downtime":
		// nothing but burns moves coins out of the two pools during these events
		ev.hasProp = true
		xb, xn, x, y := zeroVec(), zeroVec(), zeroVec(), zeroVec()
		for d := 0; d < bnDen; d++ {
			xb[d] = sub(pre.Bal[slBonded][d], post.Bal[slBonded][d])
			xn[d] = sub(pre.Bal[slNotBonded][d], post.Bal[slNotBonded][d])
			x[d] = new(big.Int).Add(xb[d], xn[d])
			if xb[d].Sign() < 0 || xn[d].Sign() < 0 {
				x[d] = big.NewInt(-1)
			}
		}
		demand(x, y, op.Op)
		if c, ok := bnCoqCoins(xb); ok {
			ev.coqOps = append(ev.coqOps, fmt.Sprintf("Burn 1%%N %s", c))
			ev.tags = append(ev.tags, op.Op+":bonded-pool")
		}
		if c, ok := bnCoqCoins(xn); ok {
			ev.coqOps = append(ev.coqOps, fmt.Sprintf("Burn 2%%N %s", c))
			ev.tags = append(ev.tags, op.Op+":not-bonded-pool")
		}
		ev.redirX.Set(x[0])
		if post.UBD.Cmp(pre.UBD) < 0 {
			ev.tags = append(ev.tags, op.Op+":unbonding-entries-slashed")
		}
		for v := 0; v < bnVals; v++ {
			if post.ValTokens[v].Cmp(pre.ValTokens[v]) < 0 {
				if v == op.V {
					ev.tags = append(ev.tags, op.Op+":validator-tokens-slashed")
				} else {
					ev.tags = append(ev.tags, op.Op+":redelegation-destination-slashed")
				}
			}
		}
	case "govend":
		ev.hasProp = true
		x, y := zeroVec(), zeroVec()
		for d := 0; d < bnDen; d++ {
			x[d] = sub(pre.Bal[slGov][d], post.Bal[slGov][d])
		}
		for u := 16; u < bnSlots; u++ {
			var r [bnDen]*big.Int
			for d := 0; d < bnDen; d++ {
				r[d] = sub(post.Bal[u][d], pre.Bal[u][d]) // refund
				x[d].Sub(x[d], r[d])
			}
			if c, ok := bnCoqCoins(r); ok {
				ev.coqOps = append(ev.coqOps, fmt.Sprintf("Send 0%%N %d%%N %s", u, c))
				ev.tags = append(ev.tags, "gov:refund")
			}
		}
		demand(x, y, "gov EndBlocker")
		if c, ok := bnCoqCoins(x); ok {
			ev.coqOps = append(ev.coqOps, fmt.Sprintf("Burn 0%%N %s", c))
			nd := 0
			for d := 0; d < bnDen; d++ {
				if x[d].Sign() > 0 {
					nd++
					ev.redirX.Add(ev.redirX, x[d])
				}
			}
			ev.tags = append(ev.tags, fmt.Sprintf("gov:deposit-burn denoms=%d", nd))
		}
	case "evmburn", "evmmint":
		ev.hasProp = true
		amt := bigOf(op.Amt)
		x, y := zeroVec(), zeroVec()
		u := 16 + op.A
		c := fmt.Sprintf("[(0%%N,%s)]", coqZ(amt))
		moved := sub(pre.Bal[u][0], post.Bal[u][0])
		if op.Op == "evmburn" {
			ev.coqOps = []string{fmt.Sprintf("Send %d%%N 4%%N %s", u, c), fmt.Sprintf("Burn 4%%N %s", c)}
			if err == nil && amt.Sign() > 0 {
				y[0] = amt
				ev.ordX.Set(amt)
				if moved.Cmp(amt) != 0 {
					ev.oracle = fmt.Sprintf("evm burn of %s took %s from the account", amt, moved)
				}
			} else if err != nil {
				ev.res = bnErrCode(err)
				ev.coqOps = ev.coqOps[:1]
			} else {
				ev.coqOps = nil
			}
		} else {
			ev.coqOps = []string{fmt.Sprintf("Mint 4%%N %s", c), fmt.Sprintf("Send 4%%N %d%%N %s", u, c)}
			if err == nil && amt.Sign() > 0 {
				y[0] = new(big.Int).Neg(amt)
			} else {
				ev.coqOps = nil
			}
		}
		if ev.oracle == "" {
			demand(x, y, op.Op)
		}
		if ev.oracle == "" && post.Bal[slEvm][0].Cmp(pre.Bal[slEvm][0]) != 0 {
			ev.oracle = "evm module account balance changed"
		}
		ev.tags = append(ev.tags, fmt.Sprintf("%s:%d", op.Op, bnErrCode(err)))
	case "bankburn":
		ev.hasProp = true
		x, y := zeroVec(), zeroVec()
		ev.res = bnErrCode(err)
		ev.coqOps = []string{fmt.Sprintf("Burn %d%%N %s", op.W, bnCoqCoinList(op.Coins))}
		if err == nil {
			for _, c := range op.Coins {
				y[c.D].Add(y[c.D], c.V)
				ev.ordX.Add(ev.ordX, c.V)
			}
			for d := 0; d < bnDen; d++ {
				if m := sub(pre.Bal[op.W][d], post.Bal[op.W][d]); m.Cmp(y[d]) != 0 {
					ev.oracle = fmt.Sprintf("burn by %s: module balance of %s dropped by %s, burned %s", bnModules[op.W], bnDenoms[d], m, y[d])
				}
			}
		}
		if ev.oracle == "" {
			demand(x, y, "burn by "+bnModules[op.W])
		}
		ev.tags = append(ev.tags, fmt.Sprintf("bankburn:%s:%d", bnModules[op.W], ev.res))
	case "fund":
		if err == nil {
			ev.coqOps = []string{fmt.Sprintf("Mint 8%%N %s", bnCoqCoinList(op.Coins)), fmt.Sprintf("Send 8%%N %d%%N %s", 16+op.A, bnCoqCoinList(op.Coins))}
		}
	case "fundmod":
		if err == nil {
			ev.coqOps = []string{fmt.Sprintf("Mint 8%%N %s", bnCoqCoinList(op.Coins)), fmt.Sprintf("Send 8%%N %d%%N %s", op.W, bnCoqCoinList(op.Coins))}
		}
	}
	return ev
}

// propStatus: status of every submitted proposal (0 = removed from the store).
func (e *bnEnv) propStatus() map[uint64]govv1.ProposalStatus {
	out := map[uint64]govv1.ProposalStatus{}
	for _, id := range e.props {
		if p, ok := e.App.GovKeeper.GetProposal(e.Ctx, id); ok {
			out[id] = p.Status
		} else {
			out[id] = 0
		}
	}
	return out
}

func bnStatusName(s govv1.ProposalStatus) string {
	switch s {
	case 0:
		return "deleted"
	case govv1.StatusDepositPeriod:
		return "deposit-period"
	case govv1.StatusVotingPeriod:
		return "voting"
	case govv1.StatusPassed:
		return "passed"
	case govv1.StatusRejected:
		return "rejected"
	case govv1.StatusFailed:
		return "failed"
	}
	return "other"
}

func vecStrings(v [bnDen]*big.Int) [][]string {
	out := [][]string{}
	for d := 0; d < bnDen; d++ {
		if v[d].Sign() != 0 {
			out = append(out, []string{bnDenoms[d], v[d].String()})
		}
	}
	return out
}

func burnsRunCase(id string, in burnInput) Case {
	be := &bnEnv{Env: forkEnv()}
	be.Ctx = be.Ctx.WithGasMeter(sdk.NewInfiniteGasMeter())
	events := []string{}
	obsAll := []bnStepObs{}
	oracleMsg := ""
	tags := map[string]bool{}
	nRedir, nOrd := 0, 0
	pre := be.snapshot()
	for i, op := range in.Ops {
		var govPre map[uint64]govv1.ProposalStatus
		if op.Op == "govend" {
			govPre = be.propStatus()
		}
		err := be.apply(op)
		post := be.snapshot()
		ev := bnJudge(op, err, &pre, &post)
		if op.Op == "govend" {
			for id, st := range be.propStatus() {
				if st != govPre[id] {
					ev.tags = append(ev.tags, fmt.Sprintf("gov:proposal %s -> %s", bnStatusName(govPre[id]), bnStatusName(st)))
				}
			}
		}
		o := bnStepObs{Op: op.Op}
		if err != nil {
			o.Err = err.Error()
			if len(o.Err) > 140 {
				o.Err = o.Err[:140]
			}
		}
		dSup, dPool, dDistr := zeroVec(), zeroVec(), zeroVec()
		for d := 0; d < bnDen; d++ {
			dSup[d] = sub(post.Supply[d], pre.Supply[d])
			dPool[d] = sub(post.Pool[d], pre.Pool[d])
			dDistr[d] = sub(post.Bal[slDistr][d], pre.Bal[slDistr][d])
		}
		o.DSup, o.DPool, o.DDistr = vecStrings(dSup), vecStrings(dPool), vecStrings(dDistr)
		if ev.redirX.Sign() > 0 {
			o.Burned = [][]string{{op.Op, ev.redirX.String()}}
			nRedir++
		}
		if ev.ordX.Sign() > 0 {
			nOrd++
		}
		obsAll = append(obsAll, o)
		if ev.hasProp || len(ev.coqOps) > 0 {
			events = append(events, fmt.Sprintf("(%s, %s, %d%%N, %s)", pre.coq(), coqList(ev.coqOps), ev.res, post.coq()))
		}
		for _, t := range ev.tags {
			tags[t] = true
		}
		if err != nil {
			tags[op.Op+":failed"] = true
		} else {
			tags[op.Op+":ok"] = true
		}
		if oracleMsg == "" && ev.oracle != "" {
			oracleMsg = fmt.Sprintf("step %d (%s): %s", i, op.Op, ev.oracle)
		}
		pre = post
		if op.Op != "downtime" {
			be.tick(5)
		}
	}
	tl := []string{}
	for t := range tags {
		tl = append(tl, t)
	}
	sort.Strings(tl)
	kb, _ := json.Marshal(in)
	return Case{
		ID: id, Kind: "history", Input: in, Obs: obsAll,
		Coq: "[" + strings.Join(events, ";\n   ") + "]", CoqList: "cases",
		OracleOK: oracleMsg == "", OracleMsg: oracleMsg,
		Nontrivial: nRedir >= 1, Key: string(kb), Tags: tl,
	}
}

// ---------------------------------------------------------------- generator
var bnE18 = new(big.Int).Exp(big.NewInt(10), big.NewInt(18), nil)

func bnStake(r *Rng, lo, hi int) *big.Int {
	x := big.NewInt(int64(lo + r.Intn(hi-lo+1)))
	x.Mul(x, bnE18)
	if r.Chance(60) {
		x.Add(x, r.Big(60))
	}
	return x
}

func bnFrac(r *Rng) string {
	switch r.Intn(9) {
	case 0:
		return "0"
	case 1:
		return "1"
	case 2:
		return bnE18.String() // 100%
	case 3:
		return "10000000000000000" // 1%
	case 4:
		return "50000000000000000"
	case 5:
		return "500000000000000000"
	case 6:
		return "333333333333333333"
	}
	return r.Below(bnE18).String()
}

func bnGen(r *Rng) burnInput {
	in := burnInput{}
	add := func(op burnOp) { in.Ops = append(in.Ops, op) }
	for u := 0; u < bnUsers; u++ {
		cs := []daoCoin{{0, bnStake(r, 2000, 9000)}}
		if u >= 6 || r.Chance(30) {
			cs = append(cs, daoCoin{3, r.Big(70)}, daoCoin{4, r.Big(30)})
			cs[1].V.Add(cs[1].V, big.NewInt(5000))
			cs[2].V.Add(cs[2].V, big.NewInt(5000))
		}
		add(burnOp{Op: "fund", A: u, Coins: cs})
	}
	add(burnOp{Op: "stakeparams", DT: []int{60, 600, 100000}[r.Intn(3)]})
	add(burnOp{Op: "slashparams", H: 3 + r.Intn(3), Frac: bnFrac(r), Frac2: bnFrac(r)})
	minDep := []daoCoin{{0, bnStake(r, 1, 20)}}
	if r.Chance(40) {
		minDep = append(minDep, daoCoin{3, big.NewInt(int64(100 + r.Intn(900)))})
	}
	add(burnOp{Op: "govparams", Flags: r.Intn(8), Coins: minDep})
	nv := 2 + r.Intn(3)
	// steering shadow (approximate; the oracle never uses it)
	type pair struct{ a, v int }
	deleg := map[pair]*big.Int{}
	pairs := []pair{}
	addDeleg := func(a, v int, x *big.Int) {
		k := pair{a, v}
		if deleg[k] == nil {
			deleg[k] = big.NewInt(0)
			pairs = append(pairs, k)
		}
		deleg[k].Add(deleg[k], x)
	}
	for v := 0; v < nv; v++ {
		x := bnStake(r, 5, 900)
		add(burnOp{Op: "createval", V: v, Amt: x.String()})
		addDeleg(v, v, x)
	}
	for k := 0; k < 3+r.Intn(4); k++ {
		a, v, x := 4+r.Intn(4), r.Intn(nv), bnStake(r, 1, 400)
		add(burnOp{Op: "delegate", A: a, V: v, Amt: x.String()})
		addDeleg(a, v, x)
	}
	add(burnOp{Op: "endblock"})
	part := func(k pair) *big.Int {
		have := deleg[k]
		if have.Sign() <= 0 {
			return bnStake(r, 1, 5)
		}
		switch r.Intn(5) {
		case 0:
			return new(big.Int).Set(have)
		case 1:
			return new(big.Int).Add(have, big.NewInt(1)) // too much
		}
		x := r.Below(have)
		return x.Add(x, big.NewInt(1))
	}
	active := []int{} // proposals believed to be in the voting period
	nprops := 0
	n := 16 + r.Intn(18)
	for k := 0; k < n; k++ {
		v, w := r.Intn(nv), r.Intn(nv)
		if r.Chance(5) {
			v = r.Intn(bnVals)
		}
		x := r.Intn(100)
		switch {
		case x < 6:
			a, amt := 4+r.Intn(4), bnStake(r, 1, 300)
			add(burnOp{Op: "delegate", A: a, V: v, Amt: amt.String()})
			addDeleg(a, v, amt)
		case x < 19:
			pk := pairs[r.Intn(len(pairs))]
			if r.Chance(8) {
				pk = pair{4 + r.Intn(4), v}
				addDeleg(pk.a, pk.v, big.NewInt(0))
			}
			amt := part(pk)
			add(burnOp{Op: "undelegate", A: pk.a, V: pk.v, Amt: amt.String()})
			if amt.Cmp(deleg[pk]) <= 0 {
				deleg[pk].Sub(deleg[pk], amt)
			}
		case x < 31:
			pk := pairs[r.Intn(len(pairs))]
			if w == pk.v && r.Chance(90) {
				w = (pk.v + 1) % nv
			}
			amt := part(pk)
			add(burnOp{Op: "redelegate", A: pk.a, V: pk.v, W: w, Amt: amt.String()})
			if amt.Cmp(deleg[pk]) <= 0 && w != pk.v {
				deleg[pk].Sub(deleg[pk], amt)
				addDeleg(pk.a, w, amt)
			}
		case x < 38:
			add(burnOp{Op: "endblock", DT: []int{5, 70, 700}[r.Intn(3)]})
		case x < 55:
			op := burnOp{Op: "slash", V: v, Frac: bnFrac(r), H: []int{0, 1, 2, 3, 6, 12, 40}[r.Intn(7)]}
			if r.Chance(25) {
				op.Pow = fmt.Sprint(r.Intn(3000))
			}
			add(op)
		case x < 61:
			add(burnOp{Op: "doublesign", V: v, H: []int{1, 2, 3, 6, 12}[r.Intn(5)]})
		case x < 65:
			add(burnOp{Op: "downtime", V: v})
		case x < 72:
			cs := []daoCoin{}
			full := r.Chance(65)
			for _, m := range minDep {
				c := daoCoin{m.D, new(big.Int).Set(m.V)}
				if !full {
					c.V = r.Below(m.V)
				} else if r.Chance(50) {
					c.V.Add(c.V, r.Big(40))
				}
				if c.V.Sign() > 0 {
					cs = append(cs, c)
				}
			}
			if r.Chance(40) {
				cs = bnAddExtra(r, cs)
			}
			if len(cs) == 0 {
				continue
			}
			add(burnOp{Op: "submit", A: 8 + r.Intn(4), Coins: cs})
			if full {
				active = append(active, nprops)
			}
			nprops++
		case x < 78:
			if nprops == 0 {
				continue
			}
			cs := []daoCoin{}
			for _, m := range minDep {
				if r.Chance(80) {
					cs = append(cs, daoCoin{m.D, new(big.Int).Set(m.V)})
				}
			}
			if r.Chance(30) {
				cs = bnAddExtra(r, cs)
			}
			if len(cs) == 0 {
				continue
			}
			w := r.Intn(nprops)
			add(burnOp{Op: "deposit", A: 6 + r.Intn(6), W: w, Coins: cs})
			if len(cs) >= len(minDep) {
				active = append(active, w)
			}
		case x < 87:
			if len(active) == 0 {
				continue
			}
			// validators' operators carry the voting power; option 4 = NoWithVeto
			add(burnOp{Op: "vote", A: r.Intn(nv), W: active[r.Intn(len(active))], Opt: []int{1, 2, 3, 4, 4, 4}[r.Intn(6)]})
		case x < 92:
			add(burnOp{Op: "govend", DT: []int{100, 250, 400, 1000}[r.Intn(4)]})
			if r.Chance(70) {
				active = active[:0]
			}
		case x < 95:
			amt := bnStake(r, 0, 50)
			if r.Chance(15) {
				amt = bnStake(r, 20000, 30000) // more than the balance
			}
			add(burnOp{Op: "evmburn", A: r.Intn(bnUsers), Amt: amt.String()})
		case x < 96:
			add(burnOp{Op: "evmmint", A: r.Intn(bnUsers), Amt: bnStake(r, 0, 50).String()})
		default:
			m := []int{4, 5, 6, 7, 4, 5, 6, 7, 8, 3, 9}[r.Intn(11)] // evm erc20 liquidvesting transfer | coinomics distribution fee_collector: no Burner permission
			cs := []daoCoin{{0, r.Big(70)}}
			cs[0].V.Add(cs[0].V, big.NewInt(1))
			if r.Chance(50) {
				cs = append(cs, daoCoin{4, big.NewInt(int64(1 + r.Intn(99)))})
			}
			add(burnOp{Op: "fundmod", W: m, Coins: cs})
			bs := make([]daoCoin, len(cs))
			for i, c := range cs {
				bs[i] = daoCoin{c.D, new(big.Int).Set(c.V)}
			}
			switch r.Intn(5) {
			case 0:
				bs[0].V.Add(bs[0].V, big.NewInt(1)) // one more than the balance
			case 1:
				bs[0].V = big.NewInt(1)
			}
			add(burnOp{Op: "bankburn", W: m, Coins: bs})
		}
	}
	// make sure pending proposals and unbondings resolve
	add(burnOp{Op: "govend", DT: 1000})
	add(burnOp{Op: "endblock", DT: 700})
	return in
}

func burnsDriver(cfg Config, out *Out) error {
	if cfg.Replay != "" {
		i := 0
		return readReplayInputs(cfg.Replay, func(raw json.RawMessage) error {
			var in burnInput
			if err := json.Unmarshal(raw, &in); err != nil {
				return err
			}
			out.Emit(burnsRunCase(fmt.Sprintf("replay-%d", i), in))
			i++
			return nil
		})
	}
	r := NewRng(cfg.Seed)
	for i := 0; i < cfg.N; i++ {
		out.Emit(burnsRunCase(fmt.Sprintf("s%d-%d", cfg.Seed, i), bnGen(r.Fork())))
	}
	return nil
}

// bnAddExtra adds one more denomination (any of the non-native ones, so that over a history the
// community pool meets new denominations that sort before, between and after the ones it holds)
// and keeps the coins sorted by denomination.
func bnAddExtra(r *Rng, cs []daoCoin) []daoCoin {
	d := 1 + r.Intn(4)
	for _, c := range cs {
		if c.D == d {
			return cs
		}
	}
	cs = append(cs, daoCoin{d, big.NewInt(int64(1 + r.Intn(500)))})
	sort.Slice(cs, func(i, j int) bool { return cs[i].D < cs[j].D })
	return cs
}
