package main

// Driver "burns" (property C14): on a real app, histories of validator
// creation / delegation / unbonding / redelegation followed by slashes
// (StakingKeeper.Slash directly, double-sign evidence through the evidence
// module's BeginBlocker, downtime through the slashing module's BeginBlocker),
// governance proposals with deposits that are vetoed / fail quorum / never
// reach the minimum deposit / pass (gov EndBlocker), and burns and mints by
// other modules (EVM SetBalance, direct BurnCoins of the keeper every other
// module holds).  Around every event: supply, community pool, balances of all
// module accounts and users.  Only the keepers of the application are driven;
// which bank keeper staking and gov hold is exactly what is observed.
//
// A case is a SEQUENCE of events over explicit block heights: an op with
// "hold":true is followed by the next op at the SAME height (BeginBlock slash,
// transactions, gov EndBlocker of one block), otherwise the height advances.
// Redirected burns are interleaved with the distribution module's own writers
// of the community pool (MsgFundCommunityPool, community-pool spend with the gov
// authority, reward / commission withdrawals, delegation changes whose hooks
// book truncation remainders, AllocateTokens of a BeginBlock; the hooks that
// fire INSIDE a slash of redelegated stake) and with ordinary burns.  After
// every event: supply, community pool, distribution module account and the sum
// of the outstanding rewards are compared with an exact expectation, and the
// distribution module-account invariant is evaluated.

import (
	"encoding/json"
	"errors"
	"fmt"
	"math/big"
	"sort"
	"strings"
	"time"

	sdkmath "cosmossdk.io/math"
	abci "github.com/cometbft/cometbft/abci/types"
	"github.com/cosmos/cosmos-sdk/crypto/keys/ed25519"
	cryptotypes "github.com/cosmos/cosmos-sdk/crypto/types"
	sdk "github.com/cosmos/cosmos-sdk/types"
	sdkerrors "github.com/cosmos/cosmos-sdk/types/errors"
	authtypes "github.com/cosmos/cosmos-sdk/x/auth/types"
	"github.com/cosmos/cosmos-sdk/x/distribution"
	distrtypes "github.com/cosmos/cosmos-sdk/x/distribution/types"
	"github.com/cosmos/cosmos-sdk/x/evidence"
	"github.com/cosmos/cosmos-sdk/x/gov"
	govtypes "github.com/cosmos/cosmos-sdk/x/gov/types"
	govv1 "github.com/cosmos/cosmos-sdk/x/gov/types/v1"
	"github.com/cosmos/cosmos-sdk/x/slashing"
	slashingtypes "github.com/cosmos/cosmos-sdk/x/slashing/types"
	stakingtypes "github.com/cosmos/cosmos-sdk/x/staking/types"
	ibctransfertypes "github.com/cosmos/ibc-go/v7/modules/apps/transfer/types"
	"github.com/ethereum/go-ethereum/common"

	"github.com/haqq-network/haqq/testutil"
	coinomicstypes "github.com/haqq-network/haqq/x/coinomics/types"
	erc20types "github.com/haqq-network/haqq/x/erc20/types"
	evmtypes "github.com/haqq-network/haqq/x/evm/types"
	liquidvestingtypes "github.com/haqq-network/haqq/x/liquidvesting/types"
	ucdaotypes "github.com/haqq-network/haqq/x/ucdao/types"
	vestingtypes "github.com/haqq-network/haqq/x/vesting/types"
)

func init() { register("burns", burnsDriver) }

const (
	bnSlots = 28 // 16 module slots + 12 users (Coq: NACC)
	bnUsers = 12
	bnDen   = 5 // Coq: NDEN
	bnVals  = 4
)

// index order = string order (sdk.Coins sort order)
var bnDenoms = []string{"aISLM", "aLIQUID0", "erc20/unused", "uatom", "utest"}

// slots 0..11 as in coq/Bank/BurnModel.v
var bnModules = []string{govtypes.ModuleName, stakingtypes.BondedPoolName, stakingtypes.NotBondedPoolName,
	distrtypes.ModuleName, evmtypes.ModuleName, erc20types.ModuleName, liquidvestingtypes.ModuleName,
	ibctransfertypes.ModuleName, coinomicstypes.ModuleName, authtypes.FeeCollectorName, vestingtypes.ModuleName,
	ucdaotypes.ModuleName}

const (
	slGov = iota
	slBonded
	slNotBonded
	slDistr
	slEvm
	slFeeCollector = 9
)

func bnSlotAddr(i int) sdk.AccAddress {
	if i < len(bnModules) {
		return authtypes.NewModuleAddress(bnModules[i])
	}
	if i < 16 {
		return nil
	}
	return addrN(i - 16)
}

type burnOp struct {
	Op    string    `json:"op"`
	A     int       `json:"a,omitempty"` // user
	V     int       `json:"v,omitempty"` // validator (operator = user V)
	W     int       `json:"w,omitempty"` // destination validator / proposal index / module slot
	Amt   string    `json:"amt,omitempty"`
	Frac  string    `json:"frac,omitempty"` // sdk.Dec in 1e-18 units
	Frac2 string    `json:"frac2,omitempty"`
	H     int       `json:"h,omitempty"`   // infraction height = current height - H
	Pow   string    `json:"pow,omitempty"` // reported power ("" = the validator's current consensus power)
	DT    int       `json:"dt,omitempty"`  // seconds
	Opt   int       `json:"opt,omitempty"`
	Flags int       `json:"flags,omitempty"` // gov: bit0 BurnVoteVeto, bit1 BurnVoteQuorum, bit2 BurnProposalDepositPrevote; allocate: bit v = validator v voted
	Coins []daoCoin `json:"coins,omitempty"`
	Hold  bool      `json:"hold,omitempty"` // the next op happens at the same block height
}

type burnInput struct {
	Ops []burnOp `json:"ops"`
}

type bnSnap struct {
	Bal    [bnSlots][bnDen]*big.Int
	Supply [bnDen]*big.Int
	Pool   [bnDen]*big.Int // 1e-18 units
	Out    [bnDen]*big.Int // sum of the validators' outstanding rewards, 1e-18 units
	All    [bnDen]*big.Int // sum of all bank balances
	// staking bookkeeping (tags only)
	ValTokens [bnVals]*big.Int
	UBD       *big.Int
}

type bnVal struct {
	created bool
	pk      cryptotypes.PubKey
	cons    sdk.ConsAddress
	oper    sdk.ValAddress
}

type bnEnv struct {
	*Env
	vals  [bnVals]bnVal
	props []uint64
}

func bnCoins(cs []daoCoin) sdk.Coins {
	out := sdk.Coins{}
	for _, c := range cs {
		out = append(out, sdk.Coin{Denom: bnDenoms[c.D], Amount: sdkmath.NewIntFromBigInt(c.V)})
	}
	return out
}

func (e *bnEnv) snapshot() bnSnap {
	var s bnSnap
	bk := e.App.BankKeeper
	for i := 0; i < bnSlots; i++ {
		a := bnSlotAddr(i)
		for d := 0; d < bnDen; d++ {
			if a == nil {
				s.Bal[i][d] = big.NewInt(0)
			} else {
				s.Bal[i][d] = bk.GetBalance(e.Ctx, a, bnDenoms[d]).Amount.BigInt()
			}
		}
	}
	fp := e.App.DistrKeeper.GetFeePool(e.Ctx)
	for d := 0; d < bnDen; d++ {
		s.Supply[d] = bk.GetSupply(e.Ctx, bnDenoms[d]).Amount.BigInt()
		s.Pool[d] = fp.CommunityPool.AmountOf(bnDenoms[d]).BigInt()
		s.All[d] = big.NewInt(0)
	}
	var out sdk.DecCoins
	e.App.DistrKeeper.IterateValidatorOutstandingRewards(e.Ctx, func(_ sdk.ValAddress, r distrtypes.ValidatorOutstandingRewards) bool {
		out = out.Add(r.Rewards...)
		return false
	})
	for d := 0; d < bnDen; d++ {
		s.Out[d] = out.AmountOf(bnDenoms[d]).BigInt()
	}
	bk.IterateAllBalances(e.Ctx, func(_ sdk.AccAddress, c sdk.Coin) bool {
		for d := 0; d < bnDen; d++ {
			if c.Denom == bnDenoms[d] {
				s.All[d].Add(s.All[d], c.Amount.BigInt())
			}
		}
		return false
	})
	s.UBD = big.NewInt(0)
	for v := 0; v < bnVals; v++ {
		s.ValTokens[v] = big.NewInt(0)
		if !e.vals[v].created {
			continue
		}
		if val, ok := e.App.StakingKeeper.GetValidator(e.Ctx, e.vals[v].oper); ok {
			s.ValTokens[v] = val.Tokens.BigInt()
		}
		for _, u := range e.App.StakingKeeper.GetUnbondingDelegationsFromValidator(e.Ctx, e.vals[v].oper) {
			for _, en := range u.Entries {
				s.UBD.Add(s.UBD, en.Balance.BigInt())
			}
		}
	}
	return s
}

func (s *bnSnap) coq() string {
	bal, sup, pool := []string{}, []string{}, []string{}
	for i := 0; i < bnSlots; i++ {
		for d := 0; d < bnDen; d++ {
			if s.Bal[i][d].Sign() != 0 {
				bal = append(bal, fmt.Sprintf("(%d%%N,%d%%N,%s)", i, d, coqZ(s.Bal[i][d])))
			}
		}
	}
	for d := 0; d < bnDen; d++ {
		if s.Supply[d].Sign() != 0 {
			sup = append(sup, fmt.Sprintf("(%d%%N,%s)", d, coqZ(s.Supply[d])))
		}
		if s.Pool[d].Sign() != 0 {
			pool = append(pool, fmt.Sprintf("(%d%%N,%s)", d, coqZ(s.Pool[d])))
		}
	}
	return fmt.Sprintf("(mksnap %s %s %s)", coqList(bal), coqList(sup), coqList(pool))
}

// src: the three module accounts whose burns are redirected, together
func (s *bnSnap) src(d int) *big.Int {
	x := new(big.Int).Add(s.Bal[slGov][d], s.Bal[slBonded][d])
	return x.Add(x, s.Bal[slNotBonded][d])
}

// cst prints the one-denomination state of the sequence model (Coq: mkcst)
func (s *bnSnap) cst(d int) string {
	other := new(big.Int).Sub(s.All[d], s.src(d))
	other.Sub(other, s.Bal[slDistr][d])
	return fmt.Sprintf("(mkcst %s %s %s %s %s %s)", coqZ(s.Supply[d]), coqZ(s.Pool[d]), coqZ(s.Bal[slDistr][d]), coqZ(s.Out[d]), coqZ(s.src(d)), coqZ(other))
}

type bnStepObs struct {
	Op     string     `json:"op"`
	H      int64      `json:"h"` // block height relative to the start of the case
	Err    string     `json:"err,omitempty"`
	Burned [][]string `json:"redirected,omitempty"` // [module, denom, amount] that left gov / the pools without a recipient
	DSup   [][]string `json:"d_supply,omitempty"`
	DPool  [][]string `json:"d_pool,omitempty"`
	DDistr [][]string `json:"d_distr,omitempty"`
	DOut   [][]string `json:"d_outstanding,omitempty"`
}

// ---------------------------------------------------------------- running one op
// atomic runs f on a cached context written back only on success (a keeper
// panic, e.g. inside Slash, aborts the block in the real node).
func (e *bnEnv) atomic(f func(ctx sdk.Context) error) (err error) {
	cctx, write := e.Ctx.CacheContext()
	defer func() {
		if r := recover(); r != nil {
			err = fmt.Errorf("panic: %v", r)
		}
	}()
	if err = f(cctx); err == nil {
		write()
	}
	return err
}

func (e *bnEnv) tick(dt int) {
	if dt <= 0 {
		dt = 5
	}
	e.Ctx = e.Ctx.WithBlockHeight(e.Ctx.BlockHeight() + 1).WithBlockTime(e.Ctx.BlockTime().Add(time.Duration(dt) * time.Second))
}

func bnDec(s string) sdk.Dec {
	v, ok := new(big.Int).SetString(s, 10)
	if !ok {
		v = big.NewInt(0)
	}
	return sdk.NewDecFromBigIntWithPrec(v, 18)
}

func (e *bnEnv) power(v int, pow string) int64 {
	if pow != "" {
		p, _ := new(big.Int).SetString(pow, 10)
		if p != nil && p.IsInt64() {
			return p.Int64()
		}
	}
	val, ok := e.App.StakingKeeper.GetValidator(e.Ctx, e.vals[v].oper)
	if !ok {
		return 0
	}
	return val.ConsensusPower(sdk.DefaultPowerReduction)
}

func (e *bnEnv) apply(op burnOp) error {
	sk := e.App.StakingKeeper
	aISLM := func(s string) sdk.Coin { return sdk.NewCoin(bnDenoms[0], sdkmath.NewIntFromBigInt(bigOf(s))) }
	switch op.Op {
	case "fund":
		return testutil.FundAccount(e.Ctx, e.App.BankKeeper, addrN(op.A), bnCoins(op.Coins))
	case "fundmod":
		return testutil.FundModuleAccount(e.Ctx, e.App.BankKeeper, bnModules[op.W], bnCoins(op.Coins))
	case "stakeparams":
		p := sk.GetParams(e.Ctx)
		p.UnbondingTime = time.Duration(op.DT) * time.Second
		return sk.SetParams(e.Ctx, p)
	case "slashparams":
		p := slashingtypes.NewParams(int64(op.H), sdk.NewDecWithPrec(5, 1), 60*time.Second, bnDec(op.Frac), bnDec(op.Frac2))
		return e.App.SlashingKeeper.SetParams(e.Ctx, p)
	case "govparams":
		p := govv1.NewParams(bnCoins(op.Coins), 200*time.Second, 300*time.Second, "0.334", "0.5", "0.334", "0",
			op.Flags&4 != 0, op.Flags&2 != 0, op.Flags&1 != 0)
		return e.App.GovKeeper.SetParams(e.Ctx, p)
	case "createval":
		v := &e.vals[op.V]
		if v.created {
			return fmt.Errorf("validator exists")
		}
		pk := ed25519.GenPrivKeyFromSecret([]byte(fmt.Sprintf("verif-val-%d", op.V))).PubKey()
		oper := sdk.ValAddress(addrN(op.V))
		msg, err := stakingtypes.NewMsgCreateValidator(oper, pk, aISLM(op.Amt), stakingtypes.NewDescription(fmt.Sprintf("v%d", op.V), "", "", "", ""),
			stakingtypes.NewCommissionRates(sdk.NewDecWithPrec(1, 1), sdk.NewDecWithPrec(2, 1), sdk.NewDecWithPrec(1, 2)), sdkmath.OneInt())
		if err != nil {
			return err
		}
		if _, err := e.runMsg(msg); err != nil {
			return err
		}
		v.created, v.pk, v.cons, v.oper = true, pk, sdk.ConsAddress(pk.Address()), oper
		return nil
	case "delegate":
		_, err := e.runMsg(stakingtypes.NewMsgDelegate(addrN(op.A), sdk.ValAddress(addrN(op.V)), aISLM(op.Amt)))
		return err
	case "undelegate":
		_, err := e.runMsg(stakingtypes.NewMsgUndelegate(addrN(op.A), sdk.ValAddress(addrN(op.V)), aISLM(op.Amt)))
		return err
	case "redelegate":
		_, err := e.runMsg(stakingtypes.NewMsgBeginRedelegate(addrN(op.A), sdk.ValAddress(addrN(op.V)), sdk.ValAddress(addrN(op.W)), aISLM(op.Amt)))
		return err
	case "endblock":
		return e.atomic(func(ctx sdk.Context) error { sk.BlockValidatorUpdates(ctx); return nil })
	case "slash":
		v := e.vals[op.V]
		if !v.created {
			return fmt.Errorf("no validator")
		}
		pw := e.power(op.V, op.Pow)
		return e.atomic(func(ctx sdk.Context) error {
			sk.Slash(ctx, v.cons, ctx.BlockHeight()-int64(op.H), pw, bnDec(op.Frac))
			return nil
		})
	case "doublesign":
		v := e.vals[op.V]
		if !v.created {
			return fmt.Errorf("no validator")
		}
		pw := e.power(op.V, op.Pow)
		req := abci.RequestBeginBlock{ByzantineValidators: []abci.Misbehavior{{
			Type: abci.MisbehaviorType_DUPLICATE_VOTE, Validator: abci.Validator{Address: v.cons, Power: pw},
			Height: e.Ctx.BlockHeight() - int64(op.H), Time: e.Ctx.BlockTime().Add(-time.Duration(op.H*5) * time.Second), TotalVotingPower: pw,
		}}}
		return e.atomic(func(ctx sdk.Context) error { evidence.BeginBlocker(ctx, req, e.App.EvidenceKeeper); return nil })
	case "downtime":
		v := e.vals[op.V]
		if !v.created {
			return fmt.Errorf("no validator")
		}
		pw := e.power(op.V, op.Pow)
		// the missed blocks are consecutive heights; the block whose BeginBlocker slashes and
		// jails is the last one, and the height stays there (later ops with "hold" share it)
		n := int(e.App.SlashingKeeper.SignedBlocksWindow(e.Ctx)) + 3
		for i := 0; i < n; i++ {
			if sk.IsValidatorJailed(e.Ctx, v.cons) {
				break
			}
			if _, ok := e.App.SlashingKeeper.GetValidatorSigningInfo(e.Ctx, v.cons); !ok {
				return fmt.Errorf("no signing info (validator never bonded)")
			}
			if i > 0 {
				e.tick(5)
			}
			req := abci.RequestBeginBlock{LastCommitInfo: abci.CommitInfo{Votes: []abci.VoteInfo{{
				Validator: abci.Validator{Address: v.cons, Power: pw}, SignedLastBlock: false}}}}
			if err := e.atomic(func(ctx sdk.Context) error { slashing.BeginBlocker(ctx, req, e.App.SlashingKeeper); return nil }); err != nil {
				return err
			}
		}
		return nil
	case "submit":
		msg, err := govv1.NewMsgSubmitProposal(nil, bnCoins(op.Coins), addrN(op.A).String(), "m", fmt.Sprintf("p%d", len(e.props)), "s")
		if err != nil {
			return err
		}
		res, err := e.runMsg(msg)
		if err != nil {
			return err
		}
		var r govv1.MsgSubmitProposalResponse
		if len(res.MsgResponses) == 1 {
			if err := e.App.AppCodec().Unmarshal(res.MsgResponses[0].Value, &r); err != nil {
				return err
			}
		}
		e.props = append(e.props, r.ProposalId)
		return nil
	case "deposit":
		if op.W >= len(e.props) {
			return fmt.Errorf("no proposal")
		}
		_, err := e.runMsg(govv1.NewMsgDeposit(addrN(op.A), e.props[op.W], bnCoins(op.Coins)))
		return err
	case "vote":
		if op.W >= len(e.props) {
			return fmt.Errorf("no proposal")
		}
		_, err := e.runMsg(govv1.NewMsgVote(addrN(op.A), e.props[op.W], govv1.VoteOption(op.Opt), ""))
		return err
	case "govend":
		e.Ctx = e.Ctx.WithBlockTime(e.Ctx.BlockTime().Add(time.Duration(op.DT) * time.Second))
		return e.atomic(func(ctx sdk.Context) error { gov.EndBlocker(ctx, &e.App.GovKeeper); return nil })
	case "evmburn", "evmmint":
		addr := common.BytesToAddress(addrN(op.A))
		cur := e.App.BankKeeper.GetBalance(e.Ctx, addrN(op.A), bnDenoms[0]).Amount.BigInt()
		if op.Op == "evmburn" {
			cur.Sub(cur, bigOf(op.Amt))
		} else {
			cur.Add(cur, bigOf(op.Amt))
		}
		return e.atomic(func(ctx sdk.Context) error { return e.App.EvmKeeper.SetBalance(ctx, addr, cur) })
	case "bankburn":
		return e.atomic(func(ctx sdk.Context) error {
			return e.App.BankKeeper.BurnCoins(ctx, bnModules[op.W], bnCoins(op.Coins))
		})
	case "fundpool": // MsgFundCommunityPool of a user
		_, err := e.runMsg(distrtypes.NewMsgFundCommunityPool(bnCoins(op.Coins), addrN(op.A)))
		return err
	case "spend": // community-pool spend: the message only the gov authority may send
		_, err := e.runMsg(&distrtypes.MsgCommunityPoolSpend{Authority: authtypes.NewModuleAddress(govtypes.ModuleName).String(),
			Recipient: addrN(op.A).String(), Amount: bnCoins(op.Coins)})
		return err
	case "withdraw":
		_, err := e.runMsg(distrtypes.NewMsgWithdrawDelegatorReward(addrN(op.A), sdk.ValAddress(addrN(op.V))))
		return err
	case "commission":
		_, err := e.runMsg(distrtypes.NewMsgWithdrawValidatorCommission(sdk.ValAddress(addrN(op.V))))
		return err
	case "allocate":
		// fees of the previous block sit in the fee collector; the distribution BeginBlocker
		// allocates them to the validators that voted (bit v of flags) and to the community pool
		if len(op.Coins) > 0 {
			if err := testutil.FundModuleAccount(e.Ctx, e.App.BankKeeper, authtypes.FeeCollectorName, bnCoins(op.Coins)); err != nil {
				return err
			}
		}
		votes := []abci.VoteInfo{}
		for v := 0; v < bnVals; v++ {
			if op.Flags&(1<<v) == 0 || !e.vals[v].created {
				continue
			}
			val, ok := sk.GetValidator(e.Ctx, e.vals[v].oper)
			if !ok {
				continue
			}
			votes = append(votes, abci.VoteInfo{Validator: abci.Validator{Address: e.vals[v].cons,
				Power: val.ConsensusPower(sdk.DefaultPowerReduction)}, SignedLastBlock: true})
		}
		req := abci.RequestBeginBlock{LastCommitInfo: abci.CommitInfo{Votes: votes}}
		return e.atomic(func(ctx sdk.Context) error { distribution.BeginBlocker(ctx, req, e.App.DistrKeeper); return nil })
	}
	return fmt.Errorf("bad op %q", op.Op)
}

func bnErrCode(err error) int {
	switch {
	case err == nil:
		return 0
	case errors.Is(err, sdkerrors.ErrInvalidCoins):
		return 1
	case errors.Is(err, sdkerrors.ErrInsufficientFunds):
		return 2
	case strings.HasPrefix(err.Error(), "panic:"):
		return 3
	}
	return 9
}

// ---------------------------------------------------------------- oracle + model ops per event
func bnCoqCoins(xs [bnDen]*big.Int) (string, bool) {
	out := []string{}
	for d := 0; d < bnDen; d++ {
		if xs[d] != nil && xs[d].Sign() != 0 {
			out = append(out, fmt.Sprintf("(%d%%N,%s)", d, coqZ(xs[d])))
		}
	}
	return coqList(out), len(out) > 0
}

func bnCoqCoinList(cs []daoCoin) string {
	out := []string{}
	for _, c := range cs {
		out = append(out, fmt.Sprintf("(%d%%N,%s)", c.D, coqZ(c.V)))
	}
	return coqList(out)
}

func zeroVec() [bnDen]*big.Int {
	var v [bnDen]*big.Int
	for d := range v {
		v[d] = big.NewInt(0)
	}
	return v
}

func sub(a, b *big.Int) *big.Int { return new(big.Int).Sub(a, b) }

type bnEvent struct {
	coqOps  []string
	seq     [bnDen][]string // events of the one-denomination sequence model (Coq: cev)
	res     int
	oracle  string // "" = property holds on this event
	redirX  *big.Int
	ordX    *big.Int
	hasProp bool // the property says something about this event
	writer  bool // the distribution keeper itself wrote the community pool during the event
	tags    []string
}

func bnMulE18(x *big.Int) *big.Int { return new(big.Int).Mul(x, e18) }

// bnJudge evaluates property C14 on one event of the implementation (pre ->
// post) and derives the bank calls the event consists of (for the models).
//
// The expectation is exact and computed from the input and from balances the
// event cannot fake: X = what left gov / the staking pools and reached no user
// (the redirected amount), Y / Z = the donation / spend of the message, P = what
// users were paid out of the distribution account.  What the distribution
// keeper itself books into the pool during the event is, by the SDK's own
// bookkeeping (withdrawDelegationRewards, AfterValidatorRemoved,
// IncrementValidatorPeriod, AllocateTokens), exactly: coins that entered the
// distribution account for it, minus payouts, minus the growth of the
// outstanding rewards.
func bnJudge(op burnOp, err error, pre, post *bnSnap) bnEvent {
	ev := bnEvent{res: 0, redirX: big.NewInt(0), ordX: big.NewInt(0)}
	dSup, dPool, dDistr, dOut, dSrc, dUsers := zeroVec(), zeroVec(), zeroVec(), zeroVec(), zeroVec(), zeroVec()
	var gain [bnUsers][bnDen]*big.Int
	for d := 0; d < bnDen; d++ {
		dSup[d] = sub(post.Supply[d], pre.Supply[d])
		dPool[d] = sub(post.Pool[d], pre.Pool[d])
		dDistr[d] = sub(post.Bal[slDistr][d], pre.Bal[slDistr][d])
		dOut[d] = sub(post.Out[d], pre.Out[d])
		dSrc[d] = sub(post.src(d), pre.src(d))
		for u := 0; u < bnUsers; u++ {
			gain[u][d] = sub(post.Bal[16+u][d], pre.Bal[16+u][d])
			dUsers[d].Add(dUsers[d], gain[u][d])
		}
	}
	// exact expectation for the three observed quantities
	expect := func(wantSup, wantPool, wantDistr [bnDen]*big.Int, what, why string) {
		if ev.oracle != "" {
			return
		}
		for d := 0; d < bnDen; d++ {
			if dSup[d].Cmp(wantSup[d]) != 0 {
				ev.oracle = fmt.Sprintf("%s: total supply of %s changed by %s, the property demands %s (%s)", what, bnDenoms[d], dSup[d], wantSup[d], why)
				return
			}
			if dPool[d].Cmp(wantPool[d]) != 0 {
				ev.oracle = fmt.Sprintf("%s: community pool of %s changed by %s (1e-18 units), the property demands %s (%s)", what, bnDenoms[d], dPool[d], wantPool[d], why)
				return
			}
			if dDistr[d].Cmp(wantDistr[d]) != 0 {
				ev.oracle = fmt.Sprintf("%s: distribution module account balance of %s changed by %s, the property demands %s (%s)", what, bnDenoms[d], dDistr[d], wantDistr[d], why)
				return
			}
		}
	}
	// x redirected, y burned for real (negative: minted)
	demand := func(x, y [bnDen]*big.Int, what string) {
		wantSup, wantPool := zeroVec(), zeroVec()
		for d := 0; d < bnDen; d++ {
			if x[d].Sign() < 0 {
				ev.oracle = fmt.Sprintf("%s: %s %s appeared in a module that only burns", what, new(big.Int).Neg(x[d]), bnDenoms[d])
				return
			}
			wantSup[d] = new(big.Int).Neg(y[d])
			wantPool[d] = bnMulE18(x[d])
		}
		expect(wantSup, wantPool, x, what, fmt.Sprintf("redirected amount %s", vecStrings(x)))
	}
	addSeq := func(d int, s string) { ev.seq[d] = append(ev.seq[d], s) }
	seqVec := func(format string, v [bnDen]*big.Int) {
		for d := 0; d < bnDen; d++ {
			if v[d].Sign() != 0 {
				addSeq(d, fmt.Sprintf(format, coqZ(v[d])))
			}
		}
	}
	seqMoveSrc := func(v [bnDen]*big.Int) { // net flow into gov + the staking pools from users
		for d := 0; d < bnDen; d++ {
			if v[d].Sign() > 0 {
				addSeq(d, fmt.Sprintf("EvMove AOther ASrc %s", coqZ(v[d])))
			} else if v[d].Sign() < 0 {
				addSeq(d, fmt.Sprintf("EvMove ASrc AOther %s", coqZ(new(big.Int).Neg(v[d]))))
			}
		}
	}
	seqRemainder := func(p, r [bnDen]*big.Int) {
		for d := 0; d < bnDen; d++ {
			if p[d].Sign() != 0 || r[d].Sign() != 0 {
				addSeq(d, fmt.Sprintf("EvRemainder %s %s", coqZ(p[d]), coqZ(r[d])))
			}
		}
	}
	// payouts of the distribution account to users, as bank sends; remainder booked into the pool
	payoutOps := func() {
		for u := 0; u < bnUsers; u++ {
			if c, ok := bnCoqCoins(gain[u]); ok {
				ev.coqOps = append(ev.coqOps, fmt.Sprintf("Send 3%%N %d%%N %s", 16+u, c))
			}
		}
	}
	bookOp := func(r [bnDen]*big.Int) {
		if c, ok := bnCoqCoins(r); ok {
			ev.coqOps = append(ev.coqOps, fmt.Sprintf("DistrBook %s", c))
			ev.writer = true
		}
	}
	// what the distribution keeper booked: - (growth of outstanding rewards) - payouts + coins in
	booked := func(in, paid [bnDen]*big.Int, what string) [bnDen]*big.Int {
		r := zeroVec()
		for d := 0; d < bnDen; d++ {
			r[d] = sub(bnMulE18(sub(in[d], paid[d])), dOut[d])
			if paid[d].Sign() < 0 && ev.oracle == "" {
				ev.oracle = fmt.Sprintf("%s: users lost %s %s", what, new(big.Int).Neg(paid[d]), bnDenoms[d])
			}
			if r[d].Sign() < 0 && ev.oracle == "" {
				ev.oracle = fmt.Sprintf("%s: outstanding rewards of %s changed by %s (1e-18 units) while %s entered the distribution account and %s was paid out: more than that cannot be accounted for",
					what, bnDenoms[d], dOut[d], in[d], paid[d])
			}
		}
		return r
	}
	switch op.Op {
	case "slash", "doublesign", "downtime":
		// nothing but burns moves coins out of the two pools during these events; users are only
		// paid by the distribution hooks that fire when redelegated shares are unbonded
		ev.hasProp = true
		xb, xn, x := zeroVec(), zeroVec(), zeroVec()
		for d := 0; d < bnDen; d++ {
			xb[d] = sub(pre.Bal[slBonded][d], post.Bal[slBonded][d])
			xn[d] = sub(pre.Bal[slNotBonded][d], post.Bal[slNotBonded][d])
			x[d] = new(big.Int).Add(xb[d], xn[d])
			if xb[d].Sign() < 0 || xn[d].Sign() < 0 {
				x[d] = big.NewInt(-1)
			}
		}
		r := booked(zeroVec(), dUsers, op.Op)
		wantPool, wantDistr := zeroVec(), zeroVec()
		for d := 0; d < bnDen; d++ {
			if x[d].Sign() < 0 && ev.oracle == "" {
				ev.oracle = fmt.Sprintf("%s: %s appeared in a staking pool", op.Op, bnDenoms[d])
			}
			wantPool[d] = new(big.Int).Add(bnMulE18(x[d]), r[d])
			wantDistr[d] = sub(x[d], dUsers[d])
		}
		expect(zeroVec(), wantPool, wantDistr, op.Op, fmt.Sprintf("redirected amount %s, rewards paid out by the staking hooks of this event %s, remainders they booked into the pool %s",
			vecStrings(x), vecStrings(dUsers), vecStrings(r)))
		if c, ok := bnCoqCoins(xb); ok {
			ev.coqOps = append(ev.coqOps, fmt.Sprintf("Burn 1%%N %s", c))
			ev.tags = append(ev.tags, op.Op+":bonded-pool")
		}
		if c, ok := bnCoqCoins(xn); ok {
			ev.coqOps = append(ev.coqOps, fmt.Sprintf("Burn 2%%N %s", c))
			ev.tags = append(ev.tags, op.Op+":not-bonded-pool")
		}
		payoutOps()
		bookOp(r)
		seqVec("EvBurn 1%%N %s", xb)
		seqVec("EvBurn 2%%N %s", xn)
		seqRemainder(dUsers, r)
		ev.redirX.Set(x[0])
		if post.UBD.Cmp(pre.UBD) < 0 {
			ev.tags = append(ev.tags, op.Op+":unbonding-entries-slashed")
		}
		for v := 0; v < bnVals; v++ {
			if post.ValTokens[v].Cmp(pre.ValTokens[v]) < 0 {
				if v == op.V {
					ev.tags = append(ev.tags, op.Op+":validator-tokens-slashed")
				} else {
					ev.tags = append(ev.tags, op.Op+":redelegation-destination-slashed")
				}
			}
		}
		if x[0].Sign() > 0 {
			for d := 0; d < bnDen; d++ {
				if dUsers[d].Sign() > 0 {
					ev.tags = append(ev.tags, op.Op+":hook-paid-rewards-inside-slash")
					break
				}
			}
			for d := 0; d < bnDen; d++ {
				if r[d].Sign() > 0 {
					ev.tags = append(ev.tags, op.Op+":hook-booked-remainder-inside-slash")
					break
				}
			}
		}
	case "govend":
		ev.hasProp = true
		x, y, refunds := zeroVec(), zeroVec(), zeroVec()
		for d := 0; d < bnDen; d++ {
			x[d] = sub(pre.Bal[slGov][d], post.Bal[slGov][d])
		}
		for u := 16; u < bnSlots; u++ {
			var r [bnDen]*big.Int
			for d := 0; d < bnDen; d++ {
				r[d] = sub(post.Bal[u][d], pre.Bal[u][d]) // refund
				x[d].Sub(x[d], r[d])
				refunds[d].Add(refunds[d], r[d])
			}
			if c, ok := bnCoqCoins(r); ok {
				ev.coqOps = append(ev.coqOps, fmt.Sprintf("Send 0%%N %d%%N %s", u, c))
				ev.tags = append(ev.tags, "gov:refund")
			}
		}
		demand(x, y, "gov EndBlocker")
		seqVec("EvMove ASrc AOther %s", refunds)
		seqVec("EvBurn 0%%N %s", x)
		if c, ok := bnCoqCoins(x); ok {
			ev.coqOps = append(ev.coqOps, fmt.Sprintf("Burn 0%%N %s", c))
			nd := 0
			for d := 0; d < bnDen; d++ {
				if x[d].Sign() > 0 {
					nd++
					ev.redirX.Add(ev.redirX, x[d])
				}
			}
			ev.tags = append(ev.tags, fmt.Sprintf("gov:deposit-burn denoms=%d", nd))
		}
	case "fundpool", "spend":
		// MsgFundCommunityPool of Y: pool + Y, distribution account + Y; a spend of Z the reverse
		ev.hasProp = true
		amt, wantPool, wantDistr := zeroVec(), zeroVec(), zeroVec()
		if err == nil {
			for _, c := range op.Coins {
				amt[c.D].Add(amt[c.D], c.V)
			}
		}
		sign := int64(1)
		if op.Op == "spend" {
			sign = -1
		}
		for d := 0; d < bnDen; d++ {
			wantDistr[d] = new(big.Int).Mul(amt[d], big.NewInt(sign))
			wantPool[d] = bnMulE18(wantDistr[d])
			if g := new(big.Int).Neg(wantDistr[d]); dUsers[d].Cmp(g) != 0 && ev.oracle == "" {
				ev.oracle = fmt.Sprintf("%s: the users' balances of %s changed by %s, expected %s", op.Op, bnDenoms[d], dUsers[d], g)
			}
		}
		expect(zeroVec(), wantPool, wantDistr, op.Op, fmt.Sprintf("amount of the message %s, result %d", vecStrings(amt), bnErrCode(err)))
		if c, ok := bnCoqCoins(amt); ok {
			if op.Op == "fundpool" {
				ev.coqOps = append(ev.coqOps, fmt.Sprintf("Send %d%%N 3%%N %s", 16+op.A, c))
				seqVec("EvFund %s", amt)
			} else {
				ev.coqOps = append(ev.coqOps, fmt.Sprintf("Send 3%%N %d%%N %s", 16+op.A, c))
				seqVec("EvSpend %s", amt)
			}
			bookOp(wantPool)
		}
	case "withdraw", "commission":
		// rewards leave the outstanding rewards: the integer part is paid out, the remainder of a
		// delegator's rewards goes to the community pool
		ev.hasProp = true
		r := booked(zeroVec(), dUsers, op.Op)
		wantDistr := zeroVec()
		for d := 0; d < bnDen; d++ {
			wantDistr[d] = new(big.Int).Neg(dUsers[d])
		}
		expect(zeroVec(), r, wantDistr, op.Op, fmt.Sprintf("paid out %s, outstanding rewards changed by %s", vecStrings(dUsers), vecStrings(dOut)))
		payoutOps()
		bookOp(r)
		seqRemainder(dUsers, r)
	case "allocate":
		// AllocateTokens: the fee collector's coins enter the distribution account; what does not
		// become outstanding rewards of the validators is the community pool's
		ev.hasProp = true
		minted, f := zeroVec(), zeroVec()
		for _, c := range op.Coins {
			minted[c.D].Add(minted[c.D], c.V)
		}
		for d := 0; d < bnDen; d++ {
			if dSup[d].Sign() == 0 {
				minted[d] = big.NewInt(0) // funding failed
			}
			f[d] = sub(new(big.Int).Add(pre.Bal[slFeeCollector][d], minted[d]), post.Bal[slFeeCollector][d])
		}
		c := booked(f, zeroVec(), op.Op)
		for d := 0; d < bnDen; d++ {
			if c[d].Cmp(bnMulE18(f[d])) > 0 && ev.oracle == "" {
				ev.oracle = fmt.Sprintf("allocate: outstanding rewards of %s shrank by %s", bnDenoms[d], new(big.Int).Neg(dOut[d]))
			}
		}
		expect(minted, c, f, op.Op, fmt.Sprintf("fees %s, outstanding rewards changed by %s", vecStrings(f), vecStrings(dOut)))
		if m, ok := bnCoqCoins(minted); ok {
			ev.coqOps = append(ev.coqOps, fmt.Sprintf("Mint 8%%N %s", m), fmt.Sprintf("Send 8%%N 9%%N %s", m))
		}
		if m, ok := bnCoqCoins(f); ok {
			ev.coqOps = append(ev.coqOps, fmt.Sprintf("Send 9%%N 3%%N %s", m))
		}
		bookOp(c)
		seqVec("EvMint %s", minted)
		for d := 0; d < bnDen; d++ {
			if f[d].Sign() != 0 || c[d].Sign() != 0 {
				addSeq(d, fmt.Sprintf("EvAllocate %s %s", coqZ(f[d]), coqZ(c[d])))
			}
		}
	case "evmburn", "evmmint":
		ev.hasProp = true
		amt := bigOf(op.Amt)
		x, y := zeroVec(), zeroVec()
		u := 16 + op.A
		c := fmt.Sprintf("[(0%%N,%s)]", coqZ(amt))
		moved := sub(pre.Bal[u][0], post.Bal[u][0])
		if op.Op == "evmburn" {
			ev.coqOps = []string{fmt.Sprintf("Send %d%%N 4%%N %s", u, c), fmt.Sprintf("Burn 4%%N %s", c)}
			if err == nil && amt.Sign() > 0 {
				y[0] = amt
				ev.ordX.Set(amt)
				addSeq(0, fmt.Sprintf("EvBurn 4%%N %s", coqZ(amt)))
				if moved.Cmp(amt) != 0 {
					ev.oracle = fmt.Sprintf("evm burn of %s took %s from the account", amt, moved)
				}
			} else if err != nil {
				ev.res = bnErrCode(err)
				ev.coqOps = ev.coqOps[:1]
			} else {
				ev.coqOps = nil
			}
		} else {
			ev.coqOps = []string{fmt.Sprintf("Mint 4%%N %s", c), fmt.Sprintf("Send 4%%N %d%%N %s", u, c)}
			if err == nil && amt.Sign() > 0 {
				y[0] = new(big.Int).Neg(amt)
				addSeq(0, fmt.Sprintf("EvMint %s", coqZ(amt)))
			} else {
				ev.coqOps = nil
			}
		}
		if ev.oracle == "" {
			demand(x, y, op.Op)
		}
		if ev.oracle == "" && post.Bal[slEvm][0].Cmp(pre.Bal[slEvm][0]) != 0 {
			ev.oracle = "evm module account balance changed"
		}
		ev.tags = append(ev.tags, fmt.Sprintf("%s:%d", op.Op, bnErrCode(err)))
	case "bankburn":
		ev.hasProp = true
		x, y := zeroVec(), zeroVec()
		ev.res = bnErrCode(err)
		ev.coqOps = []string{fmt.Sprintf("Burn %d%%N %s", op.W, bnCoqCoinList(op.Coins))}
		if err == nil {
			for _, c := range op.Coins {
				y[c.D].Add(y[c.D], c.V)
				ev.ordX.Add(ev.ordX, c.V)
			}
			for d := 0; d < bnDen; d++ {
				if m := sub(pre.Bal[op.W][d], post.Bal[op.W][d]); m.Cmp(y[d]) != 0 {
					ev.oracle = fmt.Sprintf("burn by %s: module balance of %s dropped by %s, burned %s", bnModules[op.W], bnDenoms[d], m, y[d])
				}
			}
			seqVec(fmt.Sprintf("EvBurn %d%%%%N %%s", op.W), y)
		}
		if ev.oracle == "" {
			demand(x, y, "burn by "+bnModules[op.W])
		}
		ev.tags = append(ev.tags, fmt.Sprintf("bankburn:%s:%d", bnModules[op.W], ev.res))
	case "fund":
		if err == nil {
			ev.coqOps = []string{fmt.Sprintf("Mint 8%%N %s", bnCoqCoinList(op.Coins)), fmt.Sprintf("Send 8%%N %d%%N %s", 16+op.A, bnCoqCoinList(op.Coins))}
			seqVec("EvMint %s", dSup)
		}
	case "fundmod":
		if err == nil {
			ev.coqOps = []string{fmt.Sprintf("Mint 8%%N %s", bnCoqCoinList(op.Coins)), fmt.Sprintf("Send 8%%N %d%%N %s", op.W, bnCoqCoinList(op.Coins))}
			seqVec("EvMint %s", dSup)
			switch {
			case op.W <= slNotBonded:
				seqVec("EvMove AOther ASrc %s", dSup)
			case op.W == slDistr:
				seqVec("EvMove AOther ADistr %s", dSup)
			}
		}
	default:
		// delegate / undelegate / redelegate / staking end-block / create validator / gov submit,
		// deposit, vote: no demand of the property; for the sequence model: the net flow between users
		// and gov + the staking pools, and what the distribution hooks paid out and booked
		p := zeroVec()
		for d := 0; d < bnDen; d++ {
			p[d] = new(big.Int).Neg(dDistr[d])
		}
		r := zeroVec()
		for d := 0; d < bnDen; d++ {
			r[d] = sub(new(big.Int).Neg(bnMulE18(p[d])), dOut[d])
			if dPool[d].Sign() != 0 {
				ev.writer = true
			}
		}
		seqMoveSrc(dSrc)
		seqRemainder(p, r)
		if ev.writer {
			ev.tags = append(ev.tags, op.Op+":hook-booked-remainder")
		}
	}
	return ev
}

// propStatus: status of every submitted proposal (0 = removed from the store).
func (e *bnEnv) propStatus() map[uint64]govv1.ProposalStatus {
	out := map[uint64]govv1.ProposalStatus{}
	for _, id := range e.props {
		if p, ok := e.App.GovKeeper.GetProposal(e.Ctx, id); ok {
			out[id] = p.Status
		} else {
			out[id] = 0
		}
	}
	return out
}

func bnStatusName(s govv1.ProposalStatus) string {
	switch s {
	case 0:
		return "deleted"
	case govv1.StatusDepositPeriod:
		return "deposit-period"
	case govv1.StatusVotingPeriod:
		return "voting"
	case govv1.StatusPassed:
		return "passed"
	case govv1.StatusRejected:
		return "rejected"
	case govv1.StatusFailed:
		return "failed"
	}
	return "other"
}

func vecStrings(v [bnDen]*big.Int) [][]string {
	out := [][]string{}
	for d := 0; d < bnDen; d++ {
		if v[d].Sign() != 0 {
			out = append(out, []string{bnDenoms[d], v[d].String()})
		}
	}
	return out
}

// bnCaseNo: every case of one process runs in its own range of block heights (the inputs only
// know heights relative to the start of the case), so that nothing an implementation might
// remember per height in memory can leak from one case into the next; a replay of a single
// case is case 0 and runs at the heights of the plain application.
var bnCaseNo int64

func burnsRunCase(id string, in burnInput) Case {
	be := &bnEnv{Env: forkEnv()}
	h0 := be.Ctx.BlockHeight() + bnCaseNo*1_000_000
	bnCaseNo++
	be.Ctx = be.Ctx.WithGasMeter(sdk.NewInfiniteGasMeter()).WithBlockHeight(h0)
	events := []string{}
	var seqs [bnDen][]string
	var seqReal [bnDen]int
	obsAll := []bnStepObs{}
	oracleMsg := ""
	tags := map[string]bool{}
	nRedir, nOrd := 0, 0
	first := be.snapshot()
	pre := first
	// what happened so far at the current height: 0 nothing, 1 a redirected burn, 2 then a pool writer
	blockState, blockRedir := 0, 0
	for i, op := range in.Ops {
		var govPre map[uint64]govv1.ProposalStatus
		if op.Op == "govend" {
			govPre = be.propStatus()
		}
		hPre := be.Ctx.BlockHeight()
		err := be.apply(op)
		hPost := be.Ctx.BlockHeight()
		post := be.snapshot()
		ev := bnJudge(op, err, &pre, &post)
		if op.Op == "govend" {
			for id, st := range be.propStatus() {
				if st != govPre[id] {
					ev.tags = append(ev.tags, fmt.Sprintf("gov:proposal %s -> %s", bnStatusName(govPre[id]), bnStatusName(st)))
				}
			}
		}
		// the distribution module-account invariant (x/distribution ModuleAccountInvariant, as an
		// inequality): the account holds at least the coins of community pool + outstanding rewards
		if ev.oracle == "" {
			for d := 0; d < bnDen; d++ {
				owed := new(big.Int).Add(post.Pool[d], post.Out[d])
				owed.Quo(owed, e18)
				if post.Bal[slDistr][d].Cmp(owed) < 0 {
					ev.oracle = fmt.Sprintf("after the event the distribution module account holds %s %s, less than community pool + outstanding rewards = %s (1e-18 units: pool %s, outstanding %s)",
						post.Bal[slDistr][d], bnDenoms[d], owed, post.Pool[d], post.Out[d])
					break
				}
			}
		}
		o := bnStepObs{Op: op.Op, H: hPost - h0}
		if err != nil {
			o.Err = err.Error()
			if len(o.Err) > 140 {
				o.Err = o.Err[:140]
			}
		}
		dSup, dPool, dDistr, dOut := zeroVec(), zeroVec(), zeroVec(), zeroVec()
		for d := 0; d < bnDen; d++ {
			dSup[d] = sub(post.Supply[d], pre.Supply[d])
			dPool[d] = sub(post.Pool[d], pre.Pool[d])
			dDistr[d] = sub(post.Bal[slDistr][d], pre.Bal[slDistr][d])
			dOut[d] = sub(post.Out[d], pre.Out[d])
		}
		o.DSup, o.DPool, o.DDistr, o.DOut = vecStrings(dSup), vecStrings(dPool), vecStrings(dDistr), vecStrings(dOut)
		if hPost != hPre {
			blockState, blockRedir = 0, 0
		}
		if ev.redirX.Sign() > 0 {
			o.Burned = [][]string{{op.Op, ev.redirX.String()}}
			nRedir++
			blockRedir++
			if blockRedir == 2 {
				tags["block:two-redirected-burn-events-at-one-height"] = true
			}
			if blockState == 2 {
				tags["block:redirect, pool-writer, redirect at one height"] = true
			}
			blockState = 1
		}
		if ev.writer && blockState >= 1 && !(ev.redirX.Sign() > 0) {
			blockState = 2
		}
		if ev.ordX.Sign() > 0 {
			nOrd++
			if blockRedir > 0 {
				tags["block:ordinary burn after a redirected one at one height"] = true
			}
		}
		obsAll = append(obsAll, o)
		if ev.hasProp || len(ev.coqOps) > 0 {
			events = append(events, fmt.Sprintf("(%s, %s, %d%%N, %s)", pre.coq(), coqList(ev.coqOps), ev.res, post.coq()))
		}
		for d := 0; d < bnDen; d++ {
			for h := hPre; h < hPost; h++ {
				seqs[d] = append(seqs[d], "EvNextBlock")
			}
			seqs[d] = append(seqs[d], ev.seq[d]...)
			seqReal[d] += len(ev.seq[d])
		}
		for _, t := range ev.tags {
			tags[t] = true
		}
		if err != nil {
			tags[op.Op+":failed"] = true
		} else {
			tags[op.Op+":ok"] = true
		}
		if oracleMsg == "" && ev.oracle != "" {
			oracleMsg = fmt.Sprintf("step %d (%s, height +%d): %s", i, op.Op, hPost-h0, ev.oracle)
		}
		pre = post
		if !op.Hold {
			be.tick(5)
			blockState, blockRedir = 0, 0
			for d := 0; d < bnDen; d++ {
				seqs[d] = append(seqs[d], "EvNextBlock")
			}
		} else {
			tags["hold"] = true
		}
	}
	// the whole history as one sequence per denomination that moved
	seqCases := []string{}
	for d := 0; d < bnDen; d++ {
		if seqReal[d] == 0 && first.cst(d) == pre.cst(d) {
			continue
		}
		seqCases = append(seqCases, fmt.Sprintf("(%s, %s, %s)", first.cst(d), coqList(seqs[d]), pre.cst(d)))
	}
	tl := []string{}
	for t := range tags {
		tl = append(tl, t)
	}
	sort.Strings(tl)
	kb, _ := json.Marshal(in)
	return Case{
		ID: id, Kind: "history", Input: in, Obs: obsAll,
		Coq: "([" + strings.Join(events, ";\n   ") + "],\n   [" + strings.Join(seqCases, ";\n   ") + "])", CoqList: "cases",
		OracleOK: oracleMsg == "", OracleMsg: oracleMsg,
		Nontrivial: nRedir >= 1, Key: string(kb), Tags: tl,
	}
}

// ---------------------------------------------------------------- generator
var bnE18 = new(big.Int).Exp(big.NewInt(10), big.NewInt(18), nil)

func bnStake(r *Rng, lo, hi int) *big.Int {
	x := big.NewInt(int64(lo + r.Intn(hi-lo+1)))
	x.Mul(x, bnE18)
	if r.Chance(60) {
		x.Add(x, r.Big(60))
	}
	return x
}

func bnFrac(r *Rng) string {
	switch r.Intn(9) {
	case 0:
		return "0"
	case 1:
		return "1"
	case 2:
		return bnE18.String() // 100%
	case 3:
		return "10000000000000000" // 1%
	case 4:
		return "50000000000000000"
	case 5:
		return "500000000000000000"
	case 6:
		return "333333333333333333"
	}
	return r.Below(bnE18).String()
}

func bnGen(r *Rng) burnInput {
	in := burnInput{}
	add := func(op burnOp) { in.Ops = append(in.Ops, op) }
	for u := 0; u < bnUsers; u++ {
		cs := []daoCoin{{0, bnStake(r, 2000, 9000)}}
		if u >= 6 || r.Chance(30) {
			cs = append(cs, daoCoin{3, r.Big(70)}, daoCoin{4, r.Big(30)})
			cs[1].V.Add(cs[1].V, big.NewInt(5000))
			cs[2].V.Add(cs[2].V, big.NewInt(5000))
		}
		add(burnOp{Op: "fund", A: u, Coins: cs})
	}
	add(burnOp{Op: "stakeparams", DT: []int{60, 600, 100000}[r.Intn(3)]})
	add(burnOp{Op: "slashparams", H: 3 + r.Intn(3), Frac: bnFrac(r), Frac2: bnFrac(r)})
	minDep := []daoCoin{{0, bnStake(r, 1, 20)}}
	if r.Chance(40) {
		minDep = append(minDep, daoCoin{3, big.NewInt(int64(100 + r.Intn(900)))})
	}
	add(burnOp{Op: "govparams", Flags: r.Intn(8), Coins: minDep})
	nv := 2 + r.Intn(3)
	// steering shadow (approximate; the oracle never uses it)
	type pair struct{ a, v int }
	deleg := map[pair]*big.Int{}
	pairs := []pair{}
	addDeleg := func(a, v int, x *big.Int) {
		k := pair{a, v}
		if deleg[k] == nil {
			deleg[k] = big.NewInt(0)
			pairs = append(pairs, k)
		}
		deleg[k].Add(deleg[k], x)
	}
	for v := 0; v < nv; v++ {
		x := bnStake(r, 5, 900)
		add(burnOp{Op: "createval", V: v, Amt: x.String()})
		addDeleg(v, v, x)
	}
	for k := 0; k < 3+r.Intn(4); k++ {
		a, v, x := 4+r.Intn(4), r.Intn(nv), bnStake(r, 1, 400)
		add(burnOp{Op: "delegate", A: a, V: v, Amt: x.String()})
		addDeleg(a, v, x)
	}
	add(burnOp{Op: "endblock"})
	part := func(k pair) *big.Int {
		have := deleg[k]
		if have.Sign() <= 0 {
			return bnStake(r, 1, 5)
		}
		switch r.Intn(5) {
		case 0:
			return new(big.Int).Set(have)
		case 1:
			return new(big.Int).Add(have, big.NewInt(1)) // too much
		}
		x := r.Below(have)
		return x.Add(x, big.NewInt(1))
	}
	active := []int{} // proposals believed to be in the voting period
	nprops := 0
	// how often the next op stays at the same height: a fifth of the histories has one op per
	// block, the others blocks of 2-5 ops
	holdP := []int{0, 45, 60, 75, 85}[r.Intn(5)]
	allVotes := (1 << nv) - 1
	fees := func() []daoCoin {
		cs := []daoCoin{{0, bnStake(r, 1, 2000)}}
		cs[0].V.Add(cs[0].V, r.Big(40)) // odd amounts: fractional rewards
		if r.Chance(30) {
			cs = append(cs, daoCoin{4, big.NewInt(int64(1 + r.Intn(99999)))})
		}
		return cs
	}
	votes := func() int {
		if r.Chance(70) {
			return allVotes
		}
		return r.Intn(allVotes + 1)
	}
	smallCoins := func() []daoCoin {
		cs := []daoCoin{{0, r.Big(62)}}
		cs[0].V.Add(cs[0].V, big.NewInt(1))
		if r.Chance(25) {
			cs = append(cs, daoCoin{3 + r.Intn(2), big.NewInt(int64(1 + r.Intn(4000)))})
		}
		return cs
	}
	// the delegations carry pending rewards from the start
	add(burnOp{Op: "allocate", Flags: allVotes, Coins: fees()})
	// one writer of the community pool other than a redirected burn
	writer := func() burnOp {
		pk := pairs[r.Intn(len(pairs))]
		switch r.Intn(8) {
		case 0, 1:
			return burnOp{Op: "fundpool", A: r.Intn(bnUsers), Coins: smallCoins()}
		case 2:
			return burnOp{Op: "spend", A: r.Intn(bnUsers), Coins: smallCoins()}
		case 3, 4:
			return burnOp{Op: "withdraw", A: pk.a, V: pk.v}
		case 5:
			return burnOp{Op: "allocate", Flags: votes(), Coins: fees()}
		case 6:
			amt := bnStake(r, 1, 50)
			addDeleg(pk.a, pk.v, amt)
			return burnOp{Op: "delegate", A: pk.a, V: pk.v, Amt: amt.String()}
		}
		amt := part(pk)
		if amt.Cmp(deleg[pk]) <= 0 {
			deleg[pk].Sub(deleg[pk], amt)
		}
		return burnOp{Op: "undelegate", A: pk.a, V: pk.v, Amt: amt.String()}
	}
	// one event that (normally) redirects a burn
	redirect := func() burnOp {
		v := r.Intn(nv)
		switch r.Intn(6) {
		case 0, 1:
			return burnOp{Op: "slash", V: v, Frac: bnFrac(r)} // infraction at the current height (downtime)
		case 2:
			return burnOp{Op: "slash", V: v, Frac: bnFrac(r), H: []int{2, 3, 6, 12, 40}[r.Intn(5)]}
		case 3:
			return burnOp{Op: "doublesign", V: v, H: []int{1, 2, 3, 6, 12}[r.Intn(5)]}
		case 4:
			return burnOp{Op: "downtime", V: v}
		}
		return burnOp{Op: "govend", DT: []int{250, 400, 1000}[r.Intn(3)]}
	}
	underfunded := func() {
		cs := []daoCoin{}
		for _, m := range minDep {
			if v := r.Below(m.V); v.Sign() > 0 {
				cs = append(cs, daoCoin{m.D, v})
			}
		}
		if r.Chance(40) {
			cs = bnAddExtra(r, cs)
		}
		if len(cs) > 0 {
			add(burnOp{Op: "submit", A: 8 + r.Intn(4), Coins: cs})
			nprops++
		}
	}
	n := 16 + r.Intn(18)
	for k := 0; k < n; k++ {
		v, w := r.Intn(nv), r.Intn(nv)
		if r.Chance(5) {
			v = r.Intn(bnVals)
		}
		first := len(in.Ops)
		x := r.Intn(100)
		if r.Chance(16) {
			x = 100 + r.Intn(2)
		}
		switch {
		case x == 100:
			// one block: redirected burn, 1-3 other writers of the pool (or an ordinary burn), redirected burn
			if r.Chance(50) {
				underfunded()
				first = len(in.Ops)
			}
			add(redirect())
			for q := 1 + r.Intn(3); q > 0; q-- {
				if r.Chance(12) {
					m := []int{4, 5, 6, 7}[r.Intn(4)]
					cs := []daoCoin{{0, big.NewInt(int64(1 + r.Intn(100000)))}}
					add(burnOp{Op: "fundmod", W: m, Coins: cs})
					add(burnOp{Op: "bankburn", W: m, Coins: cs})
				} else {
					add(writer())
				}
			}
			add(redirect())
			for q := first; q < len(in.Ops)-1; q++ {
				in.Ops[q].Hold = true
			}
			if r.Chance(60) {
				continue
			}
		case x == 101:
			// a double-sign slash that meets an unbonding delegation and a redelegation whose
			// destination delegation has pending rewards: the hooks of distribution fire between
			// the burns of ONE slash
			pk := pairs[r.Intn(len(pairs))]
			if w == pk.v {
				w = (pk.v + 1) % nv
			}
			a1, a2 := part(pk), part(pk)
			add(burnOp{Op: "redelegate", A: pk.a, V: pk.v, W: w, Amt: a1.String()})
			if a1.Cmp(deleg[pk]) <= 0 {
				deleg[pk].Sub(deleg[pk], a1)
				addDeleg(pk.a, w, a1)
			}
			add(burnOp{Op: "undelegate", A: pk.a, V: pk.v, Amt: a2.String()})
			if a2.Cmp(deleg[pk]) <= 0 {
				deleg[pk].Sub(deleg[pk], a2)
			}
			add(burnOp{Op: "allocate", Flags: allVotes, Coins: fees()})
			if r.Chance(50) {
				add(burnOp{Op: "slash", V: pk.v, Frac: bnFrac(r), H: []int{4, 6, 12}[r.Intn(3)]})
			} else {
				add(burnOp{Op: "doublesign", V: pk.v, H: []int{4, 6, 12}[r.Intn(3)]})
			}
		case x < 6:
			a, amt := 4+r.Intn(4), bnStake(r, 1, 300)
			add(burnOp{Op: "delegate", A: a, V: v, Amt: amt.String()})
			addDeleg(a, v, amt)
		case x < 16:
			pk := pairs[r.Intn(len(pairs))]
			if r.Chance(8) {
				pk = pair{4 + r.Intn(4), v}
				addDeleg(pk.a, pk.v, big.NewInt(0))
			}
			amt := part(pk)
			add(burnOp{Op: "undelegate", A: pk.a, V: pk.v, Amt: amt.String()})
			if amt.Cmp(deleg[pk]) <= 0 {
				deleg[pk].Sub(deleg[pk], amt)
			}
		case x < 26:
			pk := pairs[r.Intn(len(pairs))]
			if w == pk.v && r.Chance(90) {
				w = (pk.v + 1) % nv
			}
			amt := part(pk)
			add(burnOp{Op: "redelegate", A: pk.a, V: pk.v, W: w, Amt: amt.String()})
			if amt.Cmp(deleg[pk]) <= 0 && w != pk.v {
				deleg[pk].Sub(deleg[pk], amt)
				addDeleg(pk.a, w, amt)
			}
		case x < 31:
			add(burnOp{Op: "endblock", DT: []int{5, 70, 700}[r.Intn(3)]})
		case x < 45:
			op := burnOp{Op: "slash", V: v, Frac: bnFrac(r), H: []int{0, 1, 2, 3, 6, 12, 40}[r.Intn(7)]}
			if r.Chance(25) {
				op.Pow = fmt.Sprint(r.Intn(3000))
			}
			add(op)
		case x < 51:
			add(burnOp{Op: "doublesign", V: v, H: []int{1, 2, 3, 6, 12}[r.Intn(5)]})
		case x < 55:
			add(burnOp{Op: "downtime", V: v})
		case x < 61:
			cs := []daoCoin{}
			full := r.Chance(65)
			for _, m := range minDep {
				c := daoCoin{m.D, new(big.Int).Set(m.V)}
				if !full {
					c.V = r.Below(m.V)
				} else if r.Chance(50) {
					c.V.Add(c.V, r.Big(40))
				}
				if c.V.Sign() > 0 {
					cs = append(cs, c)
				}
			}
			if r.Chance(40) {
				cs = bnAddExtra(r, cs)
			}
			if len(cs) == 0 {
				continue
			}
			add(burnOp{Op: "submit", A: 8 + r.Intn(4), Coins: cs})
			if full {
				active = append(active, nprops)
			}
			nprops++
		case x < 66:
			if nprops == 0 {
				continue
			}
			cs := []daoCoin{}
			for _, m := range minDep {
				if r.Chance(80) {
					cs = append(cs, daoCoin{m.D, new(big.Int).Set(m.V)})
				}
			}
			if r.Chance(30) {
				cs = bnAddExtra(r, cs)
			}
			if len(cs) == 0 {
				continue
			}
			w := r.Intn(nprops)
			add(burnOp{Op: "deposit", A: 6 + r.Intn(6), W: w, Coins: cs})
			if len(cs) >= len(minDep) {
				active = append(active, w)
			}
		case x < 73:
			if len(active) == 0 {
				continue
			}
			// validators' operators carry the voting power; option 4 = NoWithVeto
			add(burnOp{Op: "vote", A: r.Intn(nv), W: active[r.Intn(len(active))], Opt: []int{1, 2, 3, 4, 4, 4}[r.Intn(6)]})
		case x < 78:
			add(burnOp{Op: "govend", DT: []int{100, 250, 400, 1000}[r.Intn(4)]})
			if r.Chance(70) {
				active = active[:0]
			}
		case x < 80:
			amt := bnStake(r, 0, 50)
			if r.Chance(15) {
				amt = bnStake(r, 20000, 30000) // more than the balance
			}
			add(burnOp{Op: "evmburn", A: r.Intn(bnUsers), Amt: amt.String()})
		case x < 81:
			add(burnOp{Op: "evmmint", A: r.Intn(bnUsers), Amt: bnStake(r, 0, 50).String()})
		case x < 85:
			m := []int{4, 5, 6, 7, 4, 5, 6, 7, 8, 3, 9}[r.Intn(11)] // evm erc20 liquidvesting transfer | coinomics distribution fee_collector: no Burner permission
			cs := []daoCoin{{0, r.Big(70)}}
			cs[0].V.Add(cs[0].V, big.NewInt(1))
			if r.Chance(50) {
				cs = append(cs, daoCoin{4, big.NewInt(int64(1 + r.Intn(99)))})
			}
			add(burnOp{Op: "fundmod", W: m, Coins: cs})
			bs := make([]daoCoin, len(cs))
			for i, c := range cs {
				bs[i] = daoCoin{c.D, new(big.Int).Set(c.V)}
			}
			switch r.Intn(5) {
			case 0:
				bs[0].V.Add(bs[0].V, big.NewInt(1)) // one more than the balance
			case 1:
				bs[0].V = big.NewInt(1)
			}
			add(burnOp{Op: "bankburn", W: m, Coins: bs})
		case x < 90:
			cs := smallCoins()
			if r.Chance(10) {
				cs[0].V = bnStake(r, 20000, 30000) // more than the balance
			}
			add(burnOp{Op: "fundpool", A: r.Intn(bnUsers), Coins: cs})
		case x < 93:
			add(burnOp{Op: "spend", A: r.Intn(bnUsers), Coins: smallCoins()})
		case x < 96:
			pk := pairs[r.Intn(len(pairs))]
			add(burnOp{Op: "withdraw", A: pk.a, V: pk.v})
		case x < 97:
			add(burnOp{Op: "commission", V: v})
		default:
			add(burnOp{Op: "allocate", Flags: votes(), Coins: fees()})
		}
		for q := first; q < len(in.Ops); q++ {
			if r.Chance(holdP) {
				in.Ops[q].Hold = true
			}
		}
	}
	// make sure pending proposals and unbondings resolve
	add(burnOp{Op: "govend", DT: 1000})
	add(burnOp{Op: "endblock", DT: 700})
	return in
}

func burnsDriver(cfg Config, out *Out) error {
	if cfg.Replay != "" {
		i := 0
		return readReplayInputs(cfg.Replay, func(raw json.RawMessage) error {
			var in burnInput
			if err := json.Unmarshal(raw, &in); err != nil {
				return err
			}
			out.Emit(burnsRunCase(fmt.Sprintf("replay-%d", i), in))
			i++
			return nil
		})
	}
	r := NewRng(cfg.Seed)
	for i := 0; i < cfg.N; i++ {
		out.Emit(burnsRunCase(fmt.Sprintf("s%d-%d", cfg.Seed, i), bnGen(r.Fork())))
	}
	return nil
}

// bnAddExtra adds one more denomination (any of the non-native ones, so that over a history the
// community pool meets new denominations that sort before, between and after the ones it holds)
// and keeps the coins sorted by denomination.
func bnAddExtra(r *Rng, cs []daoCoin) []daoCoin {
	d := 1 + r.Intn(4)
	for _, c := range cs {
		if c.D == d {
			return cs
		}
	}
	cs = append(cs, daoCoin{d, big.NewInt(int64(1 + r.Intn(500)))})
	sort.Slice(cs, func(i, j int) bool { return cs[i].D < cs[j].D })
	return cs
}
