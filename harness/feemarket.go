package main

// Driver "feemarket" (property C17): the real FeeMarketKeeper.CalculateBaseFee,
// BeginBlock and EndBlock on a real app, with params, consensus params, stored
// gas figure, transient gas wanted and block gas meter chosen per case.
//
// Three kinds of cases:
//   calc  one parameter set, CalculateBaseFee evaluated for a list of stored
//         gas figures (the main one and its neighbours, ascending);
//   gas   EndBlock's stored figure for (gasWanted, gasUsed, MinGasMultiplier);
//   seq   a block sequence: BeginBlock / EndBlock per block;
//   real  a block sequence on a fresh application with a finite consensus
//         MaxGas, the gas figure produced by real signed transactions delivered
//         through BaseApp (feemarket_real.go).
//
// The oracle evaluates the property text with big.Int / big.Rat, independently
// of the Coq model: the EIP-1559 formula, the floor, monotonicity along the
// evaluated gas figures, the max rule for the gas figure, the invariant
// base >= minimum over sequences.  Inputs outside the property's domain
// (division by zero, disabled fee market, negative or nil base fee, invalid
// consensus params) are observations: they are compared with the model only.

import (
	"encoding/json"
	"fmt"
	"math/big"
	"sort"
	"strings"

	sdkmath "cosmossdk.io/math"
	abci "github.com/cometbft/cometbft/abci/types"
	tmproto "github.com/cometbft/cometbft/proto/tendermint/types"
	sdk "github.com/cosmos/cosmos-sdk/types"

	feemarkettypes "github.com/haqq-network/haqq/x/feemarket/types"
)

func init() { register("feemarket", feemarketDriver) }

const fmClassK2 = "feemarket:base-below-min-gas-price"

var (
	maxUint64Big = new(big.Int).SetUint64(^uint64(0))
	maxInt64Big  = big.NewInt(int64(^uint64(0) >> 1))
)

type fmParams struct {
	NoBaseFee    bool   `json:"no_base_fee,omitempty"`
	Denom        uint32 `json:"denom"`
	Elasticity   uint32 `json:"elasticity"`
	BaseFee      string `json:"base_fee"` // "nil" = params never stored (nil Int)
	EnableHeight int64  `json:"enable_height"`
	MinGasPrice  string `json:"min_gas_price"` // LegacyDec as its scaled integer (value * 10^18)
	MinGasMult   string `json:"min_gas_mult"`  // idem
}

type fmBlock struct {
	Height int64   `json:"h,omitempty"`
	MaxGas *int64  `json:"max_gas,omitempty"` // seq: nil = no consensus params in the context
	Wanted string  `json:"wanted,omitempty"`  // seq: transient gas wanted (uint64)
	Used   string  `json:"used,omitempty"`    // seq: block gas meter reading (uint64)
	Txs    []fmRTx `json:"txs,omitempty"`     // real: the transactions delivered in the block (feemarket_real.go)
}

type fmInput struct {
	Kind   string    `json:"kind"` // calc | gas | seq | real
	P      fmParams  `json:"p"`
	Height int64     `json:"h,omitempty"`
	MaxGas *int64    `json:"max_gas"`
	G      []string  `json:"g,omitempty"`      // calc: stored gas figures, ascending
	Wanted string    `json:"wanted,omitempty"` // gas
	Used   string    `json:"used,omitempty"`   // gas
	G0     string    `json:"g0,omitempty"`     // seq, real: initially stored gas figure
	Blocks []fmBlock `json:"blocks,omitempty"` // seq, real
}

func mustBig(s string) *big.Int {
	x, ok := new(big.Int).SetString(s, 10)
	if !ok {
		panic("bad integer " + s)
	}
	return x
}

func (p fmParams) coq() string {
	bf := "None"
	if p.BaseFee != "nil" {
		bf = "(Some " + coqZ(mustBig(p.BaseFee)) + ")"
	}
	return fmt.Sprintf("(mkparams %s %s %s %s %s %s %s)", coqBool(p.NoBaseFee), coqZi(int64(p.Denom)), coqZi(int64(p.Elasticity)),
		bf, coqZi(p.EnableHeight), coqZ(mustBig(p.MinGasPrice)), coqZ(mustBig(p.MinGasMult)))
}

func coqOptI64(x *int64) string {
	if x == nil {
		return "None"
	}
	return "(Some " + coqZi(*x) + ")"
}

func consParams(maxGas *int64) *tmproto.ConsensusParams {
	if maxGas == nil {
		return nil
	}
	return &tmproto.ConsensusParams{Block: &tmproto.BlockParams{MaxBytes: 200000, MaxGas: *maxGas}}
}

// fmSetParams stores the parameters the way the keeper stores them; "nil"
// removes the stored Params so that GetParams yields the zero value.
func fmSetParams(e *Env, ctx sdk.Context, p fmParams) error {
	k := e.App.FeeMarketKeeper
	if p.BaseFee == "nil" {
		ctx.KVStore(e.App.GetKey(feemarkettypes.StoreKey)).Delete(feemarkettypes.ParamsKey)
		got := k.GetParams(ctx)
		if !got.BaseFee.IsNil() || got.NoBaseFee || got.EnableHeight != 0 {
			return fmt.Errorf("unset params are not the zero value: %+v", got)
		}
		return nil
	}
	return k.SetParams(ctx, feemarkettypes.Params{
		NoBaseFee:                p.NoBaseFee,
		BaseFeeChangeDenominator: p.Denom,
		ElasticityMultiplier:     p.Elasticity,
		BaseFee:                  sdkmath.NewIntFromBigInt(mustBig(p.BaseFee)),
		EnableHeight:             p.EnableHeight,
		MinGasPrice:              sdkmath.LegacyNewDecFromBigIntWithPrec(mustBig(p.MinGasPrice), 18),
		MinGasMultiplier:         sdkmath.LegacyNewDecFromBigIntWithPrec(mustBig(p.MinGasMult), 18),
	})
}

// result of one CalculateBaseFee call: "nil", "panic" or the decimal value
func fmCalc(e *Env, ctx sdk.Context) (out string) {
	defer func() {
		if r := recover(); r != nil {
			out = "panic"
		}
	}()
	v := e.App.FeeMarketKeeper.CalculateBaseFee(ctx)
	if v == nil {
		return "nil"
	}
	return v.String()
}

func coqRes(s string) string {
	switch s {
	case "nil":
		return "RNil"
	case "panic":
		return "RPanic"
	}
	return "(RVal " + coqZ(mustBig(s)) + ")"
}

// ---------------------------------------------------------------- the property, evaluated independently

type fmDomain struct {
	in     bool
	why    string
	base   *big.Int
	T      *big.Int
	d      *big.Int
	mgp    *big.Int // scaled
	mFloor *big.Int
	mCeil  *big.Int
}

// fmDomainOf decides whether (params, height, max gas) lie in the domain of the
// property's formula, and derives target, denominator, minimum.
func fmDomainOf(p fmParams, height int64, maxGas *int64) fmDomain {
	d := fmDomain{}
	switch {
	case p.NoBaseFee || height < p.EnableHeight:
		d.why = "disabled"
	case height == p.EnableHeight:
		d.why = "enable-height"
	case p.BaseFee == "nil":
		d.why = "nil-base-fee"
	case mustBig(p.BaseFee).Sign() < 0:
		d.why = "negative-base-fee"
	case p.Elasticity == 0:
		d.why = "elasticity-0"
	case p.Denom == 0:
		d.why = "denominator-0"
	case maxGas == nil:
		d.why = "no-consensus-params"
	case *maxGas < -1:
		d.why = "invalid-max-gas"
	case mustBig(p.MinGasPrice).Sign() < 0:
		d.why = "negative-min-gas-price"
	}
	if d.why != "" {
		return d
	}
	limit := new(big.Int).Set(maxUint64Big) // unlimited block gas: the chain's convention (types.BlockGasLimit)
	if *maxGas >= 0 {
		limit = big.NewInt(*maxGas)
	}
	d.T = new(big.Int).Quo(limit, big.NewInt(int64(p.Elasticity)))
	if d.T.Sign() == 0 {
		d.why = "target-0"
		return d
	}
	d.in = true
	d.base = mustBig(p.BaseFee)
	d.d = big.NewInt(int64(p.Denom))
	d.mgp = mustBig(p.MinGasPrice)
	d.mFloor = new(big.Int).Quo(d.mgp, e18)
	d.mCeil = new(big.Int).Set(d.mFloor)
	if new(big.Int).Rem(d.mgp, e18).Sign() != 0 {
		d.mCeil.Add(d.mCeil, big.NewInt(1))
	}
	return d
}

// fmFormula: the EIP-1559 update (integer divisions as in the EIP).  Returns
// the admissible results: one value, or two below target when the minimum gas
// price has a fractional part (its integer part / the next integer).
func fmFormula(d fmDomain, g *big.Int) []*big.Int {
	switch g.Cmp(d.T) {
	case 0:
		return []*big.Int{new(big.Int).Set(d.base)}
	case 1:
		x := new(big.Int).Sub(g, d.T)
		x.Mul(x, d.base)
		x.Quo(x, d.T)
		x.Quo(x, d.d)
		if x.Cmp(big.NewInt(1)) < 0 {
			x = big.NewInt(1)
		}
		return []*big.Int{x.Add(x, d.base)}
	}
	x := new(big.Int).Sub(d.T, g)
	x.Mul(x, d.base)
	x.Quo(x, d.T)
	x.Quo(x, d.d)
	lo := new(big.Int).Sub(d.base, x)
	mx := func(a, b *big.Int) *big.Int {
		if a.Cmp(b) < 0 {
			return new(big.Int).Set(b)
		}
		return new(big.Int).Set(a)
	}
	return []*big.Int{mx(lo, d.mFloor), mx(lo, d.mCeil)}
}

func fmCheckValue(d fmDomain, g *big.Int, got string) string {
	if got == "nil" || got == "panic" {
		return fmt.Sprintf("g=%s: CalculateBaseFee returned %s inside the property's domain", g, got)
	}
	v := mustBig(got)
	adm := fmFormula(d, g)
	ok := false
	for _, a := range adm {
		ok = ok || a.Cmp(v) == 0
	}
	if !ok {
		return fmt.Sprintf("g=%s T=%s base=%s d=%s min=%s e-18: base fee %s, the EIP-1559 formula gives %s", g, d.T, d.base, d.d, d.mgp, v, adm[0])
	}
	switch g.Cmp(d.T) {
	case 1:
		if v.Cmp(new(big.Int).Add(d.base, big.NewInt(1))) < 0 {
			return fmt.Sprintf("g=%s > T=%s: increase below 1 (%s -> %s)", g, d.T, d.base, v)
		}
	case -1:
		if v.Cmp(d.mFloor) < 0 {
			return fmt.Sprintf("g=%s < T=%s: base fee %s below the minimum gas price %s e-18", g, d.T, v, d.mgp)
		}
	}
	return ""
}

// ---------------------------------------------------------------- calc
func fmRunCalc(id string, in fmInput) []Case {
	e := forkEnv()
	ctx := e.Ctx.WithBlockHeight(in.Height).WithConsensusParams(consParams(in.MaxGas))
	tags := []string{"calc"}
	if err := fmSetParams(e, ctx, in.P); err != nil {
		return []Case{{ID: id, Kind: "calc", Input: in, OracleOK: false, OracleMsg: "harness: " + err.Error(), Key: id}}
	}
	k := e.App.FeeMarketKeeper
	gs := []*big.Int{}
	obs := []string{}
	coqObs := []string{}
	for _, s := range in.G {
		g := mustBig(s)
		k.SetBlockGasWanted(ctx, g.Uint64())
		r := fmCalc(e, ctx)
		gs = append(gs, g)
		obs = append(obs, r)
		coqObs = append(coqObs, fmt.Sprintf("(%s, %s)", coqZ(g), coqRes(r)))
	}
	dom := fmDomainOf(in.P, in.Height, in.MaxGas)
	msg, monoMsg := "", ""
	nontrivial := false
	inClass := false
	if !dom.in {
		tags = append(tags, "ood:"+dom.why)
	} else {
		nontrivial = true
		inClass = dom.base.Cmp(dom.mFloor) < 0
		if inClass {
			tags = append(tags, "class:base-below-min")
		}
		if dom.mFloor.Cmp(dom.mCeil) != 0 {
			tags = append(tags, "min-gas-price:fractional")
		}
		for i, g := range gs {
			switch g.Cmp(dom.T) {
			case 0:
				tags = append(tags, "branch:target")
			case 1:
				tags = append(tags, "branch:above")
			default:
				tags = append(tags, "branch:below")
			}
			if m := fmCheckValue(dom, g, obs[i]); m != "" && msg == "" {
				msg = m
			}
			if obs[i] != "nil" && obs[i] != "panic" && g.Cmp(dom.T) < 0 &&
				new(big.Int).Mul(mustBig(obs[i]), e18).Cmp(dom.mgp) < 0 {
				tags = append(tags, "obs:below-fractional-min-gas-price")
			}
		}
		// monotone in g along the evaluated figures
		for i := 0; i+1 < len(gs) && msg == ""; i++ {
			if obs[i] == "nil" || obs[i] == "panic" || obs[i+1] == "nil" || obs[i+1] == "panic" {
				continue
			}
			if gs[i].Cmp(gs[i+1]) <= 0 && mustBig(obs[i]).Cmp(mustBig(obs[i+1])) > 0 {
				monoMsg = fmt.Sprintf("not monotone in the gas figure: base %s, min gas price %s e-18, T=%s: g=%s gives %s but g=%s gives %s",
					dom.base, dom.mgp, dom.T, gs[i], obs[i], gs[i+1], obs[i+1])
				break
			}
		}
	}
	tags = uniqSorted(tags)
	kb, _ := json.Marshal(in)
	coq := fmt.Sprintf("(%s, %s, %s, %s)", in.P.coq(), coqZi(in.Height), coqOptI64(in.MaxGas), coqList(coqObs))
	main := Case{ID: id, Kind: "calc", Input: in, Obs: obs, Coq: coq, CoqList: "calc",
		OracleOK: msg == "", OracleMsg: msg, Nontrivial: nontrivial, Key: string(kb), Tags: tags}
	if !inClass {
		// everything at full strength, monotonicity included
		if main.OracleOK && monoMsg != "" {
			main.OracleOK, main.OracleMsg = false, monoMsg
		}
		return []Case{main}
	}
	// parent base fee below the minimum gas price (class K2): formula, bounds and
	// floor stay at full strength in the main case; monotonicity is reported
	// separately under the class key.
	mono := Case{ID: id + "/mono", Kind: "calc-mono", Input: in, Obs: obs, OracleOK: monoMsg == "", OracleMsg: monoMsg,
		Class: fmClassK2, Nontrivial: false, Key: string(kb) + "/mono", Tags: []string{"mono-in-class"}}
	return []Case{main, mono}
}

func uniqSorted(xs []string) []string {
	m := map[string]bool{}
	out := []string{}
	for _, x := range xs {
		if !m[x] {
			m[x] = true
			out = append(out, x)
		}
	}
	sort.Strings(out)
	return out
}

// ---------------------------------------------------------------- gas figure
// fmEndBlock runs the real EndBlock; returns "skip" (nothing stored), "panic"
// or the stored figure.
func fmEndBlock(e *Env, ctx sdk.Context, wanted, used uint64) (out string) {
	defer func() {
		if r := recover(); r != nil {
			out = "panic"
		}
	}()
	k := e.App.FeeMarketKeeper
	meter := sdk.NewInfiniteGasMeter()
	meter.ConsumeGas(used, "verif")
	ctx = ctx.WithBlockGasMeter(meter).WithEventManager(sdk.NewEventManager())
	k.SetTransientBlockGasWanted(ctx, wanted)
	k.EndBlock(ctx, abci.RequestEndBlock{})
	stored := false
	for _, ev := range ctx.EventManager().Events() {
		if ev.Type == "block_gas" {
			stored = true
		}
	}
	if !stored {
		return "skip"
	}
	return new(big.Int).SetUint64(k.GetBlockGasWanted(ctx)).String()
}

func coqGres(s string) string {
	switch s {
	case "skip":
		return "GSkip"
	case "panic":
		return "GPanic"
	}
	return "(GSet " + coqZ(mustBig(s)) + ")"
}

// the property for the gas figure: an integer within one unit of
// max(wanted * multiplier, used), never below used.
func fmGasOracle(wanted, used, mult *big.Int, got string) (msg string, inDomain bool) {
	if wanted.Cmp(maxInt64Big) > 0 || used.Cmp(maxInt64Big) > 0 || mult.Sign() < 0 || mult.Cmp(e18) > 0 {
		return "", false
	}
	if got == "skip" || got == "panic" {
		return fmt.Sprintf("EndBlock stored no gas figure (%s) for wanted=%s used=%s mult=%s e-18", got, wanted, used, mult), true
	}
	v := mustBig(got)
	if v.Cmp(used) < 0 {
		return fmt.Sprintf("gas figure %s below the gas used %s", v, used), true
	}
	x := new(big.Rat).SetFrac(new(big.Int).Mul(wanted, mult), e18)
	if ur := new(big.Rat).SetInt(used); x.Cmp(ur) < 0 {
		x = ur
	}
	d := new(big.Rat).Sub(new(big.Rat).SetInt(v), x)
	if d.Abs(d).Cmp(big.NewRat(1, 1)) >= 0 {
		return fmt.Sprintf("gas figure %s is not max(wanted %s x multiplier %s e-18, used %s) = %s", v, wanted, mult, used, x.FloatString(3)), true
	}
	return "", true
}

func fmRunGas(id string, in fmInput) []Case {
	e := forkEnv()
	ctx := e.Ctx.WithBlockHeight(5)
	if err := fmSetParams(e, ctx, in.P); err != nil {
		return []Case{{ID: id, Kind: "gas", Input: in, OracleOK: false, OracleMsg: "harness: " + err.Error(), Key: id}}
	}
	w, u, m := mustBig(in.Wanted), mustBig(in.Used), mustBig(in.P.MinGasMult)
	got := fmEndBlock(e, ctx, w.Uint64(), u.Uint64())
	msg, dom := fmGasOracle(w, u, m, got)
	tags := []string{"gas", "gas:" + map[bool]string{true: "in-domain", false: "ood"}[dom]}
	if got == "skip" || got == "panic" {
		tags = append(tags, "gas:"+got)
	} else if mustBig(got).Cmp(u) == 0 {
		tags = append(tags, "gas:used-wins")
	} else {
		tags = append(tags, "gas:wanted-wins")
	}
	kb, _ := json.Marshal(in)
	return []Case{{ID: id, Kind: "gas", Input: in, Obs: got,
		Coq: fmt.Sprintf("(%s, %s, %s, %s)", coqZ(w), coqZ(u), coqZ(m), coqGres(got)), CoqList: "gas",
		OracleOK: msg == "", OracleMsg: msg, Nontrivial: dom, Key: string(kb), Tags: tags}}
}

// ---------------------------------------------------------------- sequences
type fmSeqObs struct {
	Panic   bool   `json:"panic,omitempty"`
	BaseFee string `json:"base_fee"`
	Stored  string `json:"stored"`
}

func fmRunSeq(id string, in fmInput) []Case {
	e := forkEnv()
	ctx0 := e.Ctx.WithBlockHeight(1)
	if err := fmSetParams(e, ctx0, in.P); err != nil {
		return []Case{{ID: id, Kind: "seq", Input: in, OracleOK: false, OracleMsg: "harness: " + err.Error(), Key: id}}
	}
	k := e.App.FeeMarketKeeper
	k.SetBlockGasWanted(ctx0, mustBig(in.G0).Uint64())
	obs := []fmSeqObs{}
	steps := []string{}
	msg := ""
	established := false
	nOK := 0
	tags := []string{"seq"}
	mult := mustBig(in.P.MinGasMult)
	for i, b := range in.Blocks {
		ctx := e.Ctx.WithBlockHeight(b.Height).WithConsensusParams(consParams(b.MaxGas))
		pre := k.GetParams(ctx)
		preStored := new(big.Int).SetUint64(k.GetBlockGasWanted(ctx))
		o := fmSeqObs{}
		func() {
			defer func() {
				if r := recover(); r != nil {
					o.Panic = true
				}
			}()
			k.BeginBlock(ctx, abci.RequestBeginBlock{})
		}()
		eb := ""
		if !o.Panic {
			eb = fmEndBlock(e, ctx, mustBig(b.Wanted).Uint64(), mustBig(b.Used).Uint64())
			o.Panic = eb == "panic"
		}
		blk := fmt.Sprintf("(mkblk %s %s %s %s)", coqZi(b.Height), coqOptI64(b.MaxGas), coqZ(mustBig(b.Wanted)), coqZ(mustBig(b.Used)))
		if o.Panic {
			obs = append(obs, o)
			steps = append(steps, fmt.Sprintf("(%s, None)", blk))
			tags = append(tags, "seq:panic")
			break
		}
		post := k.GetParams(ctx)
		bf := "None"
		if post.BaseFee.IsNil() {
			o.BaseFee = "nil"
		} else {
			o.BaseFee = post.BaseFee.String()
			bf = "(Some " + coqZ(post.BaseFee.BigInt()) + ")"
		}
		o.Stored = new(big.Int).SetUint64(k.GetBlockGasWanted(ctx)).String()
		obs = append(obs, o)
		steps = append(steps, fmt.Sprintf("(%s, Some (%s, %s))", blk, bf, coqZ(mustBig(o.Stored))))

		// the property on this block, from the state before it
		if msg == "" {
			pp := in.P
			if pre.BaseFee.IsNil() {
				pp.BaseFee = "nil"
			} else {
				pp.BaseFee = pre.BaseFee.String()
			}
			dom := fmDomainOf(pp, b.Height, b.MaxGas)
			if dom.in {
				nOK++
				if m := fmCheckValue(dom, preStored, o.BaseFee); m != "" {
					msg = fmt.Sprintf("block %d (height %d): %s", i, b.Height, m)
				}
				if dom.base.Cmp(dom.mFloor) >= 0 {
					established = true
				}
				if established && msg == "" && o.BaseFee != "nil" && mustBig(o.BaseFee).Cmp(dom.mFloor) < 0 {
					msg = fmt.Sprintf("block %d: base fee %s fell below the minimum gas price %s e-18 after having been at or above it", i, o.BaseFee, dom.mgp)
				}
				switch preStored.Cmp(dom.T) {
				case 0:
					tags = append(tags, "branch:target")
				case 1:
					tags = append(tags, "branch:above")
				default:
					tags = append(tags, "branch:below")
				}
			} else {
				tags = append(tags, "ood:"+dom.why)
			}
			if m, d := fmGasOracle(mustBig(b.Wanted), mustBig(b.Used), mult, eb); d && m != "" && msg == "" {
				msg = fmt.Sprintf("block %d: %s", i, m)
			}
		}
	}
	kb, _ := json.Marshal(in)
	return []Case{{ID: id, Kind: "seq", Input: in, Obs: obs,
		Coq:     fmt.Sprintf("(%s, %s, [%s])", in.P.coq(), coqZ(mustBig(in.G0)), strings.Join(steps, ";\n    ")),
		CoqList: "seq", OracleOK: msg == "", OracleMsg: msg, Nontrivial: nOK >= 2, Key: string(kb), Tags: uniqSorted(tags)}}
}

func fmRun(id string, in fmInput) []Case {
	switch in.Kind {
	case "calc":
		return fmRunCalc(id, in)
	case "gas":
		return fmRunGas(id, in)
	case "seq":
		return fmRunSeq(id, in)
	case "real":
		return fmRunReal(id, in)
	}
	return []Case{{ID: id, Kind: in.Kind, Input: in, OracleOK: false, OracleMsg: "harness: unknown kind", Key: id}}
}

// ---------------------------------------------------------------- generators
func i64p(x int64) *int64 { return &x }

func fmGenMaxGas(r *Rng) *int64 {
	switch k := r.Intn(100); {
	case k < 22:
		return i64p(-1) // unlimited
	case k < 24:
		return i64p(0) // target 0: division by zero off target
	case k < 27:
		return nil // no consensus params
	case k < 28:
		return i64p(-2 - int64(r.Intn(5))) // invalid
	case k < 45:
		return i64p(int64(1 + r.Intn(200)))
	case k < 70:
		return i64p([]int64{40_000_000, 30_000_000, 10_000_000, 100_000_000}[r.Intn(4)])
	case k < 74:
		return i64p(int64(^uint64(0) >> 1))
	default:
		return i64p(r.Big(62).Int64() + 1)
	}
}

func fmGenElasticity(r *Rng) uint32 {
	switch k := r.Intn(100); {
	case k < 3:
		return 0
	case k < 45:
		return 2
	case k < 60:
		return 1
	case k < 88:
		return uint32(3 + r.Intn(8))
	case k < 90:
		return ^uint32(0)
	case k < 97:
		return uint32(1 + r.Intn(1000))
	default:
		return uint32(r.U64()>>33) + 1
	}
}

func fmGenDenom(r *Rng) uint32 {
	switch k := r.Intn(100); {
	case k < 2:
		return 0
	case k < 45:
		return 8
	case k < 60:
		return 1
	case k < 80:
		return uint32(2 + r.Intn(60))
	case k < 85:
		return ^uint32(0)
	default:
		return uint32(r.U64()>>34) + 1
	}
}

func fmGenBase(r *Rng) *big.Int {
	switch k := r.Intn(100); {
	case k < 8:
		return big.NewInt(int64(r.Intn(3)))
	case k < 25:
		return big.NewInt(int64(1 + r.Intn(2000))) // small: the max(1, .) branch
	case k < 50:
		return big.NewInt([]int64{1_000_000_000, 7, 100, 20_000_000_000, 875_000_000}[r.Intn(5)])
	case k < 75:
		return r.Big(70)
	case k < 90:
		x := r.Big(110) // 2^100 and beyond
		return x.Add(x, new(big.Int).Lsh(big.NewInt(1), 100))
	default:
		return r.Big(200)
	}
}

func fmTargetOf(p fmParams, maxGas *int64) *big.Int {
	if p.Elasticity == 0 {
		return nil
	}
	limit := new(big.Int).Set(maxUint64Big)
	if maxGas != nil && *maxGas > -1 {
		limit = big.NewInt(*maxGas)
	}
	return limit.Quo(limit, big.NewInt(int64(p.Elasticity)))
}

func clampU64(x *big.Int) *big.Int {
	if x.Sign() < 0 {
		return big.NewInt(0)
	}
	if x.Cmp(maxUint64Big) > 0 {
		return new(big.Int).Set(maxUint64Big)
	}
	return x
}

func fmGenMult(r *Rng) *big.Int {
	switch k := r.Intn(100); {
	case k < 40:
		return new(big.Int).Quo(e18, big.NewInt(2))
	case k < 50:
		return big.NewInt(0)
	case k < 60:
		return new(big.Int).Set(e18)
	case k < 90:
		return r.Below(new(big.Int).Add(e18, big.NewInt(1)))
	case k < 93:
		return big.NewInt(1)
	default:
		return new(big.Int).Quo(e18, big.NewInt(int64(3+r.Intn(7))))
	}
}

func fmGenCalc(r *Rng) fmInput {
	p := fmParams{Denom: fmGenDenom(r), Elasticity: fmGenElasticity(r), MinGasMult: fmGenMult(r).String()}
	maxGas := fmGenMaxGas(r)
	height := int64(5 + r.Intn(100))
	switch k := r.Intn(100); {
	case k < 3:
		p.NoBaseFee = true
	case k < 6:
		p.EnableHeight = height + int64(1+r.Intn(5)) // not yet enabled
	case k < 10:
		p.EnableHeight = height // first EIP-1559 block
	case k < 30:
		p.EnableHeight = int64(r.Intn(int(height)))
	}
	base := fmGenBase(r)
	T := fmTargetOf(p, maxGas)
	// the main gas figure
	var g *big.Int
	if T != nil {
		switch k := r.Intn(100); {
		case k < 15:
			g = new(big.Int).Set(T)
		case k < 30:
			g = new(big.Int).Add(T, big.NewInt(int64(r.Intn(5)-2)))
		case k < 55:
			g = r.Below(new(big.Int).Add(T, big.NewInt(1)))
		case k < 80:
			g = new(big.Int).Add(T, r.Below(new(big.Int).Add(T, big.NewInt(2))))
		case k < 85:
			g = big.NewInt(0)
		case k < 90:
			g = new(big.Int).Set(maxUint64Big)
		default:
			g = new(big.Int).SetUint64(r.U64())
		}
	} else {
		g = new(big.Int).SetUint64(r.U64() >> uint(r.Intn(64)))
	}
	g = clampU64(g)
	// steer the base fee to the boundaries of max(1, base*(g-T)/T/d)
	if T != nil && T.Sign() > 0 && p.Denom > 0 && g.Cmp(T) != 0 && r.Chance(30) {
		delta := new(big.Int).Sub(g, T)
		delta.Abs(delta)
		kk := big.NewInt(int64(r.Intn(4))) // delta target 0..3
		b := new(big.Int).Mul(kk, T)
		b.Mul(b, big.NewInt(int64(p.Denom)))
		b.Add(b, delta).Sub(b, big.NewInt(1)).Quo(b, delta) // ceil(k*T*d / |g-T|)
		b.Add(b, big.NewInt(int64(r.Intn(3)-1)))
		if b.Sign() >= 0 && b.BitLen() <= 200 {
			base = b
		}
	}
	p.BaseFee = base.String()
	switch k := r.Intn(100); {
	case k < 2:
		p.BaseFee = "nil"
	case k < 4:
		p.BaseFee = new(big.Int).Neg(new(big.Int).Add(base, big.NewInt(1))).String()
	}
	// minimum gas price
	var mgp *big.Int
	switch k := r.Intn(100); {
	case k < 35:
		mgp = big.NewInt(0)
	case k < 55: // at or below the base fee, whole
		mgp = new(big.Int).Mul(r.Below(new(big.Int).Add(base, big.NewInt(1))), e18)
	case k < 62: // exactly the base fee
		mgp = new(big.Int).Mul(base, e18)
	case k < 72: // near the lowered fee: the clamp boundary
		lo := new(big.Int).Set(base)
		if T != nil && T.Sign() > 0 && p.Denom > 0 && g.Cmp(T) < 0 {
			x := new(big.Int).Sub(T, g)
			x.Mul(x, base).Quo(x, T).Quo(x, big.NewInt(int64(p.Denom)))
			lo.Sub(lo, x)
		}
		lo.Add(lo, big.NewInt(int64(r.Intn(3)-1)))
		if lo.Sign() < 0 {
			lo = big.NewInt(0)
		}
		mgp = lo.Mul(lo, e18)
	case k < 87: // above the base fee: class K2
		mgp = new(big.Int).Add(base, big.NewInt(1))
		mgp.Add(mgp, r.Big(1+base.BitLen()))
		mgp.Mul(mgp, e18)
	default: // fractional
		mgp = new(big.Int).Mul(r.Below(new(big.Int).Add(base, big.NewInt(2))), e18)
		mgp.Add(mgp, r.Below(e18))
	}
	if r.Chance(10) && mgp.Sign() > 0 {
		mgp.Add(mgp, r.Below(e18)) // fractional part on any of the above
	}
	p.MinGasPrice = mgp.String()
	// neighbours of the main figure
	set := map[string]*big.Int{g.String(): g}
	add := func(x *big.Int) {
		x = clampU64(x)
		set[x.String()] = x
	}
	add(new(big.Int).Sub(g, big.NewInt(1)))
	add(new(big.Int).Add(g, big.NewInt(1)))
	if T != nil {
		add(new(big.Int).Sub(T, big.NewInt(1)))
		add(new(big.Int).Set(T))
		add(new(big.Int).Add(T, big.NewInt(1)))
		add(r.Below(new(big.Int).Add(new(big.Int).Lsh(T, 1), big.NewInt(2))))
	}
	if r.Chance(50) {
		add(big.NewInt(0))
	}
	if r.Chance(30) {
		add(new(big.Int).SetUint64(r.U64()))
	}
	gl := []*big.Int{}
	for _, x := range set {
		gl = append(gl, x)
	}
	sort.Slice(gl, func(i, j int) bool { return gl[i].Cmp(gl[j]) < 0 })
	in := fmInput{Kind: "calc", P: p, Height: height, MaxGas: maxGas}
	for _, x := range gl {
		in.G = append(in.G, x.String())
	}
	return in
}

func fmGenGasAmount(r *Rng) *big.Int {
	switch k := r.Intn(100); {
	case k < 10:
		return big.NewInt(0)
	case k < 50:
		return big.NewInt(int64(r.Intn(60_000_000)))
	case k < 70:
		return r.Big(63)
	case k < 76:
		return new(big.Int).Set(maxInt64Big)
	case k < 80:
		return new(big.Int).Add(maxInt64Big, big.NewInt(1)) // above MaxInt64: skipped by the code
	case k < 83:
		return new(big.Int).Set(maxUint64Big)
	default:
		return big.NewInt(int64(r.Intn(1000)))
	}
}

func fmGenGas(r *Rng) fmInput {
	p := fmParams{Denom: 8, Elasticity: 2, BaseFee: "1000000000", MinGasPrice: "0"}
	m := fmGenMult(r)
	switch k := r.Intn(100); {
	case k < 4: // outside [0,1] (not reachable through validated params)
		m = new(big.Int).Mul(big.NewInt(int64(2+r.Intn(50))), e18)
	case k < 6:
		m = new(big.Int).Neg(m)
	case k < 8:
		m = new(big.Int).Lsh(big.NewInt(1), uint(250+r.Intn(64)))
	}
	p.MinGasMult = m.String()
	w, u := fmGenGasAmount(r), fmGenGasAmount(r)
	if r.Chance(35) && m.Sign() > 0 && w.Cmp(maxInt64Big) <= 0 {
		// used around wanted * multiplier: where max() switches
		x := new(big.Int).Mul(w, m)
		x.Quo(x, e18)
		x.Add(x, big.NewInt(int64(r.Intn(5)-2)))
		if x.Sign() >= 0 && x.Cmp(maxUint64Big) <= 0 {
			u = x
		}
	}
	return fmInput{Kind: "gas", P: p, Wanted: w.String(), Used: u.String()}
}

func fmGenSeq(r *Rng) fmInput {
	p := fmParams{Denom: []uint32{8, 1, 2, 50}[r.Intn(4)], Elasticity: []uint32{2, 1, 3, 4}[r.Intn(4)], MinGasMult: fmGenMult(r).String()}
	base := fmGenBase(r)
	p.BaseFee = base.String()
	switch k := r.Intn(100); {
	case k < 40:
		p.MinGasPrice = "0"
	case k < 70:
		p.MinGasPrice = new(big.Int).Mul(r.Below(new(big.Int).Add(base, big.NewInt(1))), e18).String()
	case k < 85: // governance raised the minimum above the current fee
		x := new(big.Int).Add(base, big.NewInt(int64(1+r.Intn(1000))))
		p.MinGasPrice = x.Mul(x, e18).String()
	default:
		x := new(big.Int).Mul(r.Below(new(big.Int).Add(base, big.NewInt(2))), e18)
		p.MinGasPrice = x.Add(x, r.Below(e18)).String()
	}
	h := int64(2)
	if r.Chance(25) {
		p.EnableHeight = int64(2 + r.Intn(4))
	}
	var maxGas *int64
	switch k := r.Intn(100); {
	case k < 50:
		maxGas = i64p(40_000_000)
	case k < 75:
		maxGas = i64p(int64(10 + r.Intn(200)))
	case k < 90:
		maxGas = i64p(-1)
	case k < 95:
		maxGas = i64p(r.Big(62).Int64() + 1)
	default:
		maxGas = fmGenMaxGas(r)
	}
	T := fmTargetOf(p, maxGas)
	if T == nil || T.Sign() == 0 {
		T = big.NewInt(100)
	}
	amt := func() *big.Int {
		var x *big.Int
		switch k := r.Intn(100); {
		case k < 10:
			x = big.NewInt(0)
		case k < 20:
			x = new(big.Int).Set(T)
		case k < 30:
			x = new(big.Int).Lsh(T, 1)
		case k < 40:
			x = new(big.Int).Add(T, big.NewInt(int64(r.Intn(5)-2)))
		default:
			x = r.Below(new(big.Int).Add(new(big.Int).Lsh(T, 1), big.NewInt(3)))
		}
		x = clampU64(x)
		if x.Cmp(maxInt64Big) > 0 && r.Chance(90) {
			x = new(big.Int).Set(maxInt64Big)
		}
		return x
	}
	in := fmInput{Kind: "seq", P: p, G0: amt().String()}
	n := 4 + r.Intn(9)
	for i := 0; i < n; i++ {
		mg := maxGas
		if r.Chance(4) {
			mg = fmGenMaxGas(r)
		}
		in.Blocks = append(in.Blocks, fmBlock{Height: h, MaxGas: mg, Wanted: amt().String(), Used: amt().String()})
		h++
	}
	return in
}

func feemarketDriver(cfg Config, out *Out) error {
	if cfg.Replay != "" {
		i := 0
		return readReplayInputs(cfg.Replay, func(raw json.RawMessage) error {
			var in fmInput
			if err := json.Unmarshal(raw, &in); err != nil {
				return err
			}
			for _, c := range fmRun(fmt.Sprintf("replay-%d", i), in) {
				out.Emit(c)
			}
			i++
			return nil
		})
	}
	r := NewRng(cfg.Seed)
	for i := 0; i < cfg.N; i++ {
		cr := r.Fork()
		var in fmInput
		switch k := i % 20; {
		case k < 14:
			in = fmGenCalc(cr)
		case k < 18:
			in = fmGenGas(cr)
		case k == 19 && (cfg.Tier != "thorough" || (i/20)%4 == 0):
			in = fmGenReal(cr)
		default:
			in = fmGenSeq(cr)
		}
		for _, c := range fmRun(fmt.Sprintf("s%d-%d", cfg.Seed, i), in) {
			out.Emit(c)
		}
	}
	return nil
}
