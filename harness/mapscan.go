package main

// Driver "mapscan" (property C01): enumerates every `for ... range` over a
// map-typed value in Haqq's non-test state-machine packages, classifies each
// site automatically where the shape of the loop allows it, and matches the
// rest against the committed classification file corpus/C01/map_range_sites.json.
//
// A site is identified by (file, enclosing function, ranged expression, k-th
// occurrence of that triple) -- never by line number, so edits elsewhere in the
// file do not invalidate the classification.
//
// Typing uses only the standard library: `go list -export -deps` supplies the
// compiler's export data of every dependency, go/types checks the target
// packages from source against it.

import (
	"bytes"
	"encoding/json"
	"fmt"
	"go/ast"
	"go/importer"
	"go/parser"
	"go/token"
	"go/types"
	"io"
	"os"
	"os/exec"
	"path/filepath"
	"sort"
	"strings"
)

func init() { register("mapscan", mapscanDriver) }

const haqqMod = "github.com/haqq-network/haqq"

var mapscanRoots = []string{"x", "app", "precompiles", "types", "utils", "ibc", "crypto", "ethereum", "encoding", "contracts"}

// directories (path components) that are not part of the replicated state machine
var mapscanExcludedDirs = []string{"/client/", "/cli/", "/rpc/", "/server/", "/indexer/", "/testutil/", "/testing/", "/simulation/", "/tests/", "/mocks/"}

type mapSite struct {
	Kind    string `json:"kind"` // map-range | go-stmt | wall-clock
	File    string `json:"file"`
	Func    string `json:"func"`
	Expr    string `json:"expr"`
	Occ     int    `json:"occ"` // k-th site with the same (file, func, expr), from 0
	MapType string `json:"map_type"`
	Line    int    `json:"line"` // informative only, never matched
	Auto    string `json:"auto,omitempty"`
	AutoWhy string `json:"auto_why,omitempty"`
	Body    string `json:"-"`
}

func (s mapSite) key() string { return fmt.Sprintf("%s|%s|%s|%s|%d", s.Kind, s.File, s.Func, s.Expr, s.Occ) }

type siteRule struct {
	Kind     string `json:"kind"`
	File     string `json:"file"`
	Func     string `json:"func"`
	Expr     string `json:"expr"`
	Occ      int    `json:"occ"`
	Class    string `json:"class"`    // sorted-before-use | set-or-lookup-only | order-free-result | query-only | construction-registry | not-state-machine
	Lemma    string `json:"lemma"`    // theorem of Props/C01.v (or argument) that discharges the site
	Argument string `json:"argument"` // why the lemma applies to this loop
	BodyHash string `json:"body_hash,omitempty"`
}

type siteFile struct {
	Comment string     `json:"_comment"`
	Sites   []siteRule `json:"sites"`
}

func repoRoot() string {
	if r := os.Getenv("VERIF_REPO"); r != "" {
		return r
	}
	return "/repo"
}

func verifRoot() string {
	if r := os.Getenv("VERIF_ROOT"); r != "" {
		return r
	}
	exe, err := os.Executable()
	if err == nil {
		return filepath.Dir(filepath.Dir(exe))
	}
	return "."
}

type listedPkg struct {
	ImportPath string
	Dir        string
	Export     string
	GoFiles    []string
	CgoFiles   []string
	Standard   bool
	Error      *struct{ Err string }
}

func goListExport(patterns []string) ([]listedPkg, error) {
	args := append([]string{"list", "-e", "-export", "-deps", "-json=ImportPath,Dir,Export,GoFiles,CgoFiles,Standard,Error"}, patterns...)
	cmd := exec.Command("go", args...)
	cmd.Dir = filepath.Join(verifRoot(), "harness")
	cmd.Env = append(os.Environ(), "GOFLAGS=-mod=mod", "GOPROXY=off", "GOSUMDB=off", "GOTOOLCHAIN=local")
	var stderr bytes.Buffer
	cmd.Stderr = &stderr
	outb, err := cmd.Output()
	if err != nil {
		return nil, fmt.Errorf("go list: %v: %s", err, stderr.String())
	}
	dec := json.NewDecoder(bytes.NewReader(outb))
	var res []listedPkg
	for dec.More() {
		var p listedPkg
		if err := dec.Decode(&p); err != nil {
			return nil, err
		}
		res = append(res, p)
	}
	return res, nil
}

func excludedDir(rel string) bool {
	p := "/" + rel + "/"
	for _, x := range mapscanExcludedDirs {
		if strings.Contains(p, x) {
			return true
		}
	}
	return false
}

// scanMapSites returns every map-range site of the state-machine packages.
func scanMapSites() ([]mapSite, error) {
	pats := []string{}
	for _, r := range mapscanRoots {
		pats = append(pats, haqqMod+"/"+r+"/...")
	}
	pkgs, err := goListExport(pats)
	if err != nil {
		return nil, err
	}
	exports := map[string]string{}
	for _, p := range pkgs {
		if p.Export != "" {
			exports[p.ImportPath] = p.Export
		}
	}
	fset := token.NewFileSet()
	imp := importer.ForCompiler(fset, "gc", func(path string) (io.ReadCloser, error) {
		f, ok := exports[path]
		if !ok {
			return nil, fmt.Errorf("no export data for %s", path)
		}
		return os.Open(f)
	})
	root := repoRoot()
	var sites []mapSite
	for _, p := range pkgs {
		if !strings.HasPrefix(p.ImportPath, haqqMod+"/") {
			continue
		}
		rel := strings.TrimPrefix(p.ImportPath, haqqMod+"/")
		inRoot := false
		for _, r := range mapscanRoots {
			if rel == r || strings.HasPrefix(rel, r+"/") {
				inRoot = true
			}
		}
		if !inRoot || excludedDir(rel) {
			continue
		}
		var files []*ast.File
		for _, gf := range append(append([]string{}, p.GoFiles...), p.CgoFiles...) {
			if strings.HasSuffix(gf, "_test.go") {
				continue
			}
			f, err := parser.ParseFile(fset, filepath.Join(p.Dir, gf), nil, parser.ParseComments)
			if err != nil {
				return nil, err
			}
			files = append(files, f)
		}
		if len(files) == 0 {
			continue
		}
		info := &types.Info{Types: map[ast.Expr]types.TypeAndValue{}, Uses: map[*ast.Ident]types.Object{}, Defs: map[*ast.Ident]types.Object{}}
		conf := types.Config{Importer: imp, FakeImportC: true, Error: func(error) {}}
		_, _ = conf.Check(p.ImportPath, fset, files, info) // type errors (cgo) are tolerated: untyped ranges are reported below
		for _, f := range files {
			fname := fset.Position(f.Pos()).Filename
			relFile, _ := filepath.Rel(root, fname)
			if strings.HasSuffix(relFile, ".pb.go") || strings.HasSuffix(relFile, ".pb.gw.go") {
				continue
			}
			sites = append(sites, sitesOfFile(fset, f, info, relFile)...)
		}
	}
	// occurrence numbers
	sort.SliceStable(sites, func(i, j int) bool {
		if sites[i].File != sites[j].File {
			return sites[i].File < sites[j].File
		}
		return sites[i].Line < sites[j].Line
	})
	seen := map[string]int{}
	for i := range sites {
		k := sites[i].Kind + "|" + sites[i].File + "|" + sites[i].Func + "|" + sites[i].Expr
		sites[i].Occ = seen[k]
		seen[k]++
	}
	return sites, nil
}

func recvName(fd *ast.FuncDecl) string {
	if fd.Recv == nil || len(fd.Recv.List) == 0 {
		return fd.Name.Name
	}
	t := fd.Recv.List[0].Type
	star := ""
	if s, ok := t.(*ast.StarExpr); ok {
		t = s.X
		star = "*"
	}
	if ix, ok := t.(*ast.IndexExpr); ok {
		t = ix.X
	}
	return "(" + star + types.ExprString(t) + ")." + fd.Name.Name
}

func sitesOfFile(fset *token.FileSet, f *ast.File, info *types.Info, relFile string) []mapSite {
	var out []mapSite
	for _, d := range f.Decls {
		var fname string
		var body ast.Node
		switch dd := d.(type) {
		case *ast.FuncDecl:
			if dd.Body == nil {
				continue
			}
			fname, body = recvName(dd), dd
		case *ast.GenDecl:
			fname, body = "<package-level>", dd
		}
		if body == nil {
			continue
		}
		fd, _ := body.(*ast.FuncDecl)
		var stack []ast.Node
		ast.Inspect(body, func(n ast.Node) bool {
			if n == nil {
				stack = stack[:len(stack)-1]
				return true
			}
			stack = append(stack, n)
			if gs, ok := n.(*ast.GoStmt); ok {
				s := mapSite{Kind: "go-stmt", File: relFile, Func: fname, Expr: types.ExprString(gs.Call.Fun), MapType: "-", Line: fset.Position(gs.Pos()).Line}
				if _, isLit := gs.Call.Fun.(*ast.FuncLit); isLit {
					s.Expr = "func literal"
				}
				// a literal carries its own body; for `go f()` what makes the goroutine harmless (locks, what it
				// writes) lives in the enclosing function: review all of it
				s.Body = nodeText(fset, gs)
				if _, isLit := gs.Call.Fun.(*ast.FuncLit); !isLit {
					s.Body = nodeText(fset, body)
				}
				s.Auto, s.AutoWhy = autoClassifyOther(relFile, nil)
				out = append(out, s)
				return true
			}
			if call, ok := n.(*ast.CallExpr); ok {
				name := types.ExprString(call.Fun)
				if sel, ok := call.Fun.(*ast.SelectorExpr); ok && (sel.Sel.Name == "AddEVMExtensions" || sel.Sel.Name == "RegisterERC20Extensions") {
					// the in-memory precompile registry must stay a constant of construction (no caller outside tests):
					// a caller makes committed behaviour depend on process history (see also C20)
					out = append(out, mapSite{Kind: "dynamic-registration", File: relFile, Func: fname, Expr: name, MapType: "-",
						Line: fset.Position(call.Pos()).Line, Body: nodeText(fset, call)})
				}
				if name == "time.Now" || name == "time.Since" || name == "time.Until" {
					s := mapSite{Kind: "wall-clock", File: relFile, Func: fname, Expr: name + "()", MapType: "-", Line: fset.Position(call.Pos()).Line}
					// the statement the call sits in is what is reviewed
					var encl ast.Node = call
					for i := len(stack) - 1; i >= 0; i-- {
						if _, ok := stack[i].(ast.Stmt); ok {
							encl = stack[i]
							break
						}
					}
					s.Body = nodeText(fset, encl)
					s.Auto, s.AutoWhy = autoClassifyOther(relFile, stack)
					out = append(out, s)
				}
				return true
			}
			rs, ok := n.(*ast.RangeStmt)
			if !ok {
				return true
			}
			tv, ok := info.Types[rs.X]
			if !ok || tv.Type == nil {
				// untyped (type error upstream): report it as a site that cannot be classified
				out = append(out, mapSite{Kind: "map-range", File: relFile, Func: fname, Expr: types.ExprString(rs.X), MapType: "?untyped", Line: fset.Position(rs.Pos()).Line})
				return true
			}
			u := tv.Type.Underlying()
			if p, ok := u.(*types.Pointer); ok {
				u = p.Elem().Underlying()
			}
			if _, ok := u.(*types.Map); !ok {
				return true
			}
			s := mapSite{Kind: "map-range", File: relFile, Func: fname, Expr: types.ExprString(rs.X), MapType: tv.Type.String(), Line: fset.Position(rs.Pos()).Line}
			s.Body = nodeText(fset, rs)
			s.Auto, s.AutoWhy = autoClassify(rs, fd, info, relFile)
			out = append(out, s)
			return true
		})
	}
	return out
}

func nodeText(fset *token.FileSet, n ast.Node) string {
	p0, p1 := fset.Position(n.Pos()), fset.Position(n.End())
	b, err := os.ReadFile(p0.Filename)
	if err != nil || p1.Offset > len(b) {
		return ""
	}
	// normalise whitespace so that re-indentation does not change the hash
	return strings.Join(strings.Fields(string(b[p0.Offset:p1.Offset])), " ")
}

// ---------------------------------------------------------------- automatic classification

// pure callees: conversions, builtins and a short list of functions without side effects
var pureFuncs = map[string]bool{
	"len": true, "cap": true, "append": true, "string": true, "make": true, "new": true, "min": true, "max": true,
	"strings.ToLower": true, "strings.ToUpper": true, "strings.TrimSpace": true, "strings.HasPrefix": true, "strings.HasSuffix": true,
	"strings.Contains": true, "fmt.Sprintf": true, "fmt.Sprint": true, "fmt.Errorf": true,
	"authtypes.NewModuleAddress": true, "common.HexToAddress": true, "common.BytesToAddress": true, "common.HexToHash": true,
	"sdk.AccAddress": true, "sdk.ValAddress": true, "bytes.Equal": true, "bytes.Compare": true,
}

var pureMethods = map[string]bool{"String": true, "Bytes": true, "Hex": true, "Address": true, "Equal": true, "IsZero": true, "Cmp": true, "Sign": true}

func isPureExpr(e ast.Expr, info *types.Info) bool {
	pure := true
	ast.Inspect(e, func(n ast.Node) bool {
		switch x := n.(type) {
		case *ast.CallExpr:
			if tv, ok := info.Types[x.Fun]; ok && tv.IsType() {
				return true // conversion
			}
			name := types.ExprString(x.Fun)
			if pureFuncs[name] {
				return true
			}
			if sel, ok := x.Fun.(*ast.SelectorExpr); ok && pureMethods[sel.Sel.Name] && len(x.Args) <= 1 {
				return true
			}
			pure = false
			return false
		case *ast.FuncLit:
			pure = false
			return false
		case *ast.UnaryExpr:
			if x.Op == token.ARROW {
				pure = false
				return false
			}
		}
		return true
	})
	return pure
}

func isMapIndex(e ast.Expr, info *types.Info) bool {
	ix, ok := e.(*ast.IndexExpr)
	if !ok {
		return false
	}
	tv, ok := info.Types[ix.X]
	if !ok {
		return false
	}
	_, ok = tv.Type.Underlying().(*types.Map)
	return ok
}

// stmtsOnly reports whether every statement of the block satisfies ok (looking into if/else and nested blocks).
func stmtsOnly(list []ast.Stmt, info *types.Info, ok func(ast.Stmt) bool) bool {
	for _, st := range list {
		switch s := st.(type) {
		case *ast.BlockStmt:
			if !stmtsOnly(s.List, info, ok) {
				return false
			}
		case *ast.IfStmt:
			if s.Init != nil || !isPureExpr(s.Cond, info) {
				return false
			}
			if !stmtsOnly(s.Body.List, info, ok) {
				return false
			}
			if s.Else != nil && !stmtsOnly([]ast.Stmt{s.Else}, info, ok) {
				return false
			}
		case *ast.BranchStmt:
			if s.Tok != token.CONTINUE {
				return false
			}
		case *ast.EmptyStmt:
		default:
			if !ok(st) {
				return false
			}
		}
	}
	return true
}

func autoClassify(rs *ast.RangeStmt, fd *ast.FuncDecl, info *types.Info, relFile string) (string, string) {
	base := filepath.Base(relFile)
	if strings.HasPrefix(base, "grpc_query") || base == "querier.go" || base == "query.go" {
		return "query-only", "file " + base + " holds gRPC query handlers only; results never enter committed state"
	}
	// (1) keys (or key-derived values) collected into slices, each slice sorted afterwards in the same function
	collected := map[string]bool{}
	collectOnly := stmtsOnly(rs.Body.List, info, func(st ast.Stmt) bool {
		if inc, ok := st.(*ast.IncDecStmt); ok { // index counter of `slice[i] = k; i++`
			_, isIdent := inc.X.(*ast.Ident)
			return isIdent
		}
		as, ok := st.(*ast.AssignStmt)
		if !ok || len(as.Lhs) != 1 || len(as.Rhs) != 1 {
			return false
		}
		if ix, ok := as.Lhs[0].(*ast.IndexExpr); ok && as.Tok == token.ASSIGN { // slice[i] = key
			if tv, ok := info.Types[ix.X]; ok {
				if _, isSlice := tv.Type.Underlying().(*types.Slice); isSlice && isPureExpr(as.Rhs[0], info) {
					collected[types.ExprString(ix.X)] = true
					return true
				}
			}
			return false
		}
		call, ok := as.Rhs[0].(*ast.CallExpr)
		if !ok || types.ExprString(call.Fun) != "append" || len(call.Args) < 2 {
			return false
		}
		if types.ExprString(call.Args[0]) != types.ExprString(as.Lhs[0]) {
			return false
		}
		for _, a := range call.Args[1:] {
			if !isPureExpr(a, info) {
				return false
			}
		}
		collected[types.ExprString(as.Lhs[0])] = true
		return true
	})
	if collectOnly && len(collected) > 0 && fd != nil {
		sorted := map[string]bool{}
		ast.Inspect(fd.Body, func(n ast.Node) bool {
			call, ok := n.(*ast.CallExpr)
			if !ok || call.Pos() < rs.End() {
				return true
			}
			name := types.ExprString(call.Fun)
			if strings.HasPrefix(name, "sort.") || strings.HasPrefix(name, "slices.Sort") {
				if len(call.Args) > 0 {
					sorted[types.ExprString(call.Args[0])] = true
					if c2, ok := call.Args[0].(*ast.CallExpr); ok && len(c2.Args) == 1 { // sort.Sort(sort.StringSlice(x))
						sorted[types.ExprString(c2.Args[0])] = true
					}
				}
			}
			return true
		})
		all := true
		names := []string{}
		for c := range collected {
			names = append(names, c)
			if !sorted[c] {
				all = false
			}
		}
		sort.Strings(names)
		if all {
			return "sorted-before-use", "loop only appends to " + strings.Join(names, ", ") + ", which the function sorts before any use (C01_sorted_collection_order_independent)"
		}
	}
	// (2) body only inserts into / deletes from maps or counts
	onlySet := stmtsOnly(rs.Body.List, info, func(st ast.Stmt) bool {
		switch s := st.(type) {
		case *ast.AssignStmt:
			if s.Tok != token.ASSIGN {
				return false
			}
			for _, l := range s.Lhs {
				if !isMapIndex(l, info) {
					return false
				}
				if !isPureExpr(l, info) {
					return false
				}
			}
			for _, r := range s.Rhs {
				if !isPureExpr(r, info) {
					return false
				}
			}
			return true
		case *ast.IncDecStmt:
			_, isIdent := s.X.(*ast.Ident)
			return isIdent || isMapIndex(s.X, info)
		case *ast.ExprStmt:
			call, ok := s.X.(*ast.CallExpr)
			if !ok || types.ExprString(call.Fun) != "delete" || len(call.Args) != 2 {
				return false
			}
			return isPureExpr(call.Args[0], info) && isPureExpr(call.Args[1], info)
		}
		return false
	})
	if onlySet && len(rs.Body.List) > 0 {
		return "set-or-lookup-only", "loop body only writes map entries keyed by the ranged key / deletes entries / counts, with side-effect-free operands (C01_registry_order_independent)"
	}
	return "", ""
}

// autoClassifyOther handles goroutine and wall-clock sites: query handlers, and clock reads that only feed telemetry.
func autoClassifyOther(relFile string, stack []ast.Node) (string, string) {
	base := filepath.Base(relFile)
	if strings.HasPrefix(base, "grpc_query") || base == "querier.go" || base == "query.go" {
		return "query-only", "file " + base + " holds gRPC query handlers only; results never enter committed state"
	}
	for i := len(stack) - 1; i >= 0; i-- {
		switch x := stack[i].(type) {
		case *ast.CallExpr:
			name := types.ExprString(x.Fun)
			if strings.HasPrefix(name, "telemetry.") {
				return "telemetry-only", "the clock value is an argument of " + name + " (metrics sink, nothing is returned to the state machine)"
			}
		}
	}
	return "", ""
}

// ---------------------------------------------------------------- classification file

func loadSiteRules() (map[string]siteRule, error) {
	path := filepath.Join(verifRoot(), "corpus", "C01", "map_range_sites.json")
	b, err := os.ReadFile(path)
	if err != nil {
		return nil, err
	}
	var sf siteFile
	if err := json.Unmarshal(b, &sf); err != nil {
		return nil, err
	}
	m := map[string]siteRule{}
	for _, r := range sf.Sites {
		if r.Kind == "" {
			r.Kind = "map-range"
		}
		m[fmt.Sprintf("%s|%s|%s|%s|%d", r.Kind, r.File, r.Func, r.Expr, r.Occ)] = r
	}
	return m, nil
}

func bodyHash(s string) string {
	h := uint64(14695981039346656037)
	for i := 0; i < len(s); i++ {
		h ^= uint64(s[i])
		h *= 1099511628211
	}
	return fmt.Sprintf("%016x", h)
}

type siteVerdict struct {
	Site   mapSite
	Class  string // "" = undischarged
	Lemma  string
	Why    string
	Status string // auto | listed | unmatched | changed | stale
}

// classifySites combines the scan with the committed file.  A listed site
// whose loop text changed is "changed" (undischarged until re-reviewed); a site
// neither auto-classified nor listed is "unmatched".
func classifySites() ([]siteVerdict, []siteRule, error) {
	sites, err := scanMapSites()
	if err != nil {
		return nil, nil, err
	}
	rules, err := loadSiteRules()
	if err != nil {
		return nil, nil, err
	}
	used := map[string]bool{}
	var out []siteVerdict
	for _, s := range sites {
		v := siteVerdict{Site: s}
		if r, ok := rules[s.key()]; ok {
			used[s.key()] = true
			if r.BodyHash != "" && r.BodyHash != bodyHash(s.Body) {
				v.Status, v.Why = "changed", "the loop listed in map_range_sites.json now has a different body (hash "+bodyHash(s.Body)+", reviewed "+r.BodyHash+")"
				if s.Auto != "" { // the new shape is one the scanner can discharge by itself
					v.Status, v.Class, v.Lemma, v.Why = "auto", s.Auto, autoLemma(s.Auto), s.AutoWhy
				}
			} else {
				v.Status, v.Class, v.Lemma, v.Why = "listed", r.Class, r.Lemma, r.Argument
			}
		} else if s.Auto != "" {
			v.Status, v.Class, v.Lemma, v.Why = "auto", s.Auto, autoLemma(s.Auto), s.AutoWhy
		} else {
			v.Status, v.Why = "unmatched", "no automatic rule applies and the site is not listed in corpus/C01/map_range_sites.json"
		}
		out = append(out, v)
	}
	var stale []siteRule
	for k, r := range rules {
		if !used[k] {
			stale = append(stale, r)
		}
	}
	sort.Slice(stale, func(i, j int) bool { return stale[i].File+stale[i].Func < stale[j].File+stale[j].Func })
	return out, stale, nil
}

func autoLemma(class string) string {
	switch class {
	case "sorted-before-use":
		return "C01_sorted_collection_order_independent"
	case "set-or-lookup-only":
		return "C01_registry_order_independent"
	case "query-only":
		return "(not part of the block function: C01_block_is_function_partial quantifies over DeliverTx-mode steps only)"
	case "telemetry-only":
		return "(the value never flows back: no argument of the step functions of C01_block_is_function_partial)"
	}
	return ""
}

var siteClassCode = map[string]int{"sorted-before-use": 1, "set-or-lookup-only": 2, "order-free-result": 3, "query-only": 4,
	"construction-registry": 5, "not-state-machine": 6, "index-into-ordered-slice": 7, "telemetry-only": 8, "synchronised-then-sorted": 9,
	"node-local-observer": 10}

// undischargedPackages lists the /repo directories holding undischarged sites
// (used by the replicas driver to bias its histories).
func undischargedPackages() []string {
	vs, _, err := classifySites()
	if err != nil {
		return nil
	}
	set := map[string]bool{}
	for _, v := range vs {
		if v.Class == "" {
			set[filepath.Dir(v.Site.File)] = true
		}
	}
	out := []string{}
	for k := range set {
		out = append(out, k)
	}
	sort.Strings(out)
	return out
}

func mapscanDriver(cfg Config, out *Out) error {
	if cfg.Args["dump"] == "1" { // maintenance: print a skeleton of the classification file for the unmatched sites
		sites, err := scanMapSites()
		if err != nil {
			return err
		}
		for _, s := range sites {
			b, _ := json.Marshal(map[string]interface{}{"kind": s.Kind, "file": s.File, "func": s.Func, "expr": s.Expr, "occ": s.Occ, "map_type": s.MapType,
				"line": s.Line, "auto": s.Auto, "body_hash": bodyHash(s.Body), "body": s.Body})
			fmt.Fprintln(os.Stderr, string(b))
		}
		return nil
	}
	vs, stale, err := classifySites()
	if err != nil {
		return err
	}
	for _, v := range vs {
		s := v.Site
		code := siteClassCode[v.Class]
		c := Case{
			ID:   "site:" + s.key(),
			Kind: s.Kind + "-site",
			Input: map[string]interface{}{"kind": s.Kind, "file": s.File, "func": s.Func, "expr": s.Expr, "occ": s.Occ, "map_type": s.MapType, "line": s.Line},
			Obs:  map[string]interface{}{"status": v.Status, "class": v.Class, "lemma": v.Lemma, "why": v.Why},
			// the Coq side re-checks that the class code names a lemma of Props/C01.v (0 = undischarged -> mismatch)
			Coq:        fmt.Sprintf("%d%%N", code),
			CoqList:    "sites",
			OracleOK:   true, // a site by itself is not a property violation; an undischarged one triggers the deep replica search
			Nontrivial: v.Class != "",
			Key:        s.key(),
			Tags:       []string{"site:" + v.Status, "site-class:" + map[bool]string{true: v.Class, false: "UNDISCHARGED"}[v.Class != ""]},
		}
		if v.Class == "" {
			c.OracleMsg = "undischarged map-range site: " + v.Why
		}
		out.Emit(c)
	}
	// dynamic-registration entry points must stay unreachable from non-test code (DESIGN section 5, C20)
	for _, st := range stale {
		fmt.Fprintf(os.Stderr, "note: classification entry no longer matches any site: %s %s %s\n", st.File, st.Func, st.Expr)
	}
	return nil
}
