package main

// Driver "bankops" (property C15): ties Bank/InvariantModel.v to the real code.
// Each case runs a short random sequence of the coin-moving operations of
// Haqq's modules (plus the bank primitives themselves) on a copy-on-write fork
// of one real application, records the balances of the tracked accounts, the
// supply and the community pool after every operation, and emits the sequence
// as a Coq term; the model must reproduce every observation.  The oracle
// (independent of the model): after every operation the sum over ALL accounts of
// the bank equals the recorded supply per denomination, and the distribution
// account covers the community pool plus the outstanding rewards; and the registered
// invariant distribution/module-account (equality), when it held before an operation
// that does not pay the distribution account directly, holds after it.  Burns through
// the Haqq bank keeper come with one coin ("burn") or a coin list ("burncoins").

import (
	"encoding/json"
	"fmt"
	"math/big"
	"sort"
	"strings"
	"time"

	sdkmath "cosmossdk.io/math"
	tmproto "github.com/cometbft/cometbft/proto/tendermint/types"
	sdk "github.com/cosmos/cosmos-sdk/types"
	authtypes "github.com/cosmos/cosmos-sdk/x/auth/types"
	sdkvesting "github.com/cosmos/cosmos-sdk/x/auth/vesting/types"
	banktypes "github.com/cosmos/cosmos-sdk/x/bank/types"
	distrkeeper "github.com/cosmos/cosmos-sdk/x/distribution/keeper"
	distrtypes "github.com/cosmos/cosmos-sdk/x/distribution/types"
	govtypes "github.com/cosmos/cosmos-sdk/x/gov/types"
	stakingtypes "github.com/cosmos/cosmos-sdk/x/staking/types"
	"github.com/ethereum/go-ethereum/common"

	haqqbankkeeper "github.com/haqq-network/haqq/x/bank/keeper"
	"github.com/haqq-network/haqq/utils"
	coinomicstypes "github.com/haqq-network/haqq/x/coinomics/types"
	erc20types "github.com/haqq-network/haqq/x/erc20/types"
	evmtypes "github.com/haqq-network/haqq/x/evm/types"
	liquidvestingtypes "github.com/haqq-network/haqq/x/liquidvesting/types"
	ucdaokeeper "github.com/haqq-network/haqq/x/ucdao/keeper"
	ucdaotypes "github.com/haqq-network/haqq/x/ucdao/types"
	vestingtypes "github.com/haqq-network/haqq/x/vesting/types"
)

func init() { register("bankops", bankopsDriver) }

type boCoin struct {
	D int    `json:"d"` // denomination index
	X string `json:"x"`
}

type boOp struct {
	K      string `json:"k"` // send mint burn burncoins coinomics daofund liquidate redeem convertcoin converterc20 setbalance | user level: paramerc20 msgsend msgmultisend
	Outs   []boCoin `json:"outs,omitempty"` // msgmultisend: outputs (d = recipient account, x = amount) of denomination D
	Paired bool   `json:"paired,omitempty"` // msgsend (filled in by the harness): the denomination has an enabled token pair
	Cs     []boCoin `json:"cs,omitempty"` // burncoins: the coin list (several denominations)
	A      int    `json:"a"` // account (tracked index: 0..3 users, 100.. modules)
	C      int    `json:"c,omitempty"`
	D      int    `json:"d,omitempty"` // denomination index
	X      string `json:"x,omitempty"`
	DT     int64  `json:"dt,omitempty"` // coinomics: seconds passed
	Conv   string `json:"conv,omitempty"`
	Liquid int    `json:"liquid,omitempty"`
	Ref    int    `json:"ref,omitempty"` // redeem: refers to the Ref-th successful liquidation of the case (-1: Liquid/A are explicit)
}

type boInput struct {
	Ops []boOp `json:"ops"`
}

var boModules = []struct {
	ID   int
	Name string
}{
	{100, authtypes.FeeCollectorName}, {101, distrtypes.ModuleName}, {102, stakingtypes.BondedPoolName}, {103, stakingtypes.NotBondedPoolName},
	{104, govtypes.ModuleName}, {105, coinomicstypes.ModuleName}, {106, ucdaotypes.ModuleName}, {107, liquidvestingtypes.ModuleName},
	{108, erc20types.ModuleName}, {109, evmtypes.ModuleName},
}

const boND = 9 // denominations 0 = aISLM, 1 = utest, 2..5 = aLIQUID0..3, 6..8 = the further genesis denominations (ibc/…, USDX, zcoin)

func boDenom(d int) string {
	switch {
	case d == 0:
		return utils.BaseDenom
	case d == 1:
		return testDenom
	case d >= 6 && d < 6+len(bhExtraDenoms):
		return bhExtraDenoms[d-6]
	}
	return fmt.Sprintf("aLIQUID%d", d-2)
}

// boCoins builds the coin list of a burncoins operation AS WRITTEN (zero amounts and repeated denominations
// stay, the bank has to refuse them), in the order of the denomination strings, which is the order every
// caller of the bank presents (the model does not know the strings, see Bank/InvariantModel.v).
func boCoins(cs []boCoin) (sdk.Coins, []boCoin) {
	sorted := append([]boCoin{}, cs...)
	sort.SliceStable(sorted, func(i, j int) bool { return boDenom(sorted[i].D) < boDenom(sorted[j].D) })
	out := sdk.Coins{}
	for _, c := range sorted {
		out = append(out, sdk.Coin{Denom: boDenom(c.D), Amount: intA(c.X)})
	}
	return out, sorted
}

func boAcc(a int) sdk.AccAddress {
	if a < 100 {
		return bhUserAcc[a%bhNU]
	}
	if a >= 110 { // the other blocked addresses (module accounts 110.., precompile addresses 120..): blockparams.go
		if x, ok := blockedActor(a - 100 + bhBlockedBase); ok {
			return sdk.AccAddress(x.Bytes())
		}
	}
	for _, m := range boModules {
		if m.ID == a {
			return authtypes.NewModuleAddress(m.Name)
		}
	}
	return authtypes.NewModuleAddress("unknown")
}
func boModName(a int) string {
	for _, m := range boModules {
		if m.ID == a {
			return m.Name
		}
	}
	return ""
}

type boEnv struct {
	liqs [][2]int // successful liquidations of this case: (denomination index, receiver)
	Rep  *Replica
	Ctx  sdk.Context
	Bank haqqbankkeeper.BaseKeeper
}

var boBase *boEnv

func boBaseEnv() *boEnv {
	if boBase != nil {
		return boBase
	}
	g := bhGenesis{NVal: 3, MaxVals: 4, Coinomics: true, Window: 8, UnbondSecs: 100, VoteSecs: 30, Extra: true}
	rep := newReplica(g, repOpts{})
	h := &histRun{Rep: rep}
	set := bhInitialValSet(g)
	h.Track = valTracker{sets: [3][]valEntry{nil, set, set}}
	rb := h.makeRaw(bhBlock{DT: 5})
	if _, pan := rep.beginBlock(&rb); pan != "" {
		panic(pan)
	}
	a := rep.App
	ctx := rep.ctx()
	e := &boEnv{Rep: rep, Ctx: ctx}
	e.Bank = haqqbankkeeper.NewBaseKeeper(a.AppCodec(), a.GetKey(banktypes.StoreKey), a.GetKey(distrtypes.StoreKey), a.AccountKeeper, a.DistrKeeper,
		a.BlockedAddrs(), authtypes.NewModuleAddress(govtypes.ModuleName).String())
	must := func(err error) {
		if err != nil {
			panic(err)
		}
	}
	// governance holds deposits, the not-bonded pool holds unbonding tokens
	must(a.BankKeeper.SendCoinsFromAccountToModule(ctx, bhUserAcc[0], govtypes.ModuleName, coinsOf(utils.BaseDenom, mulE18(1000))))
	// ... in several denominations (gov accepts any denomination as deposit): the test coin and the further genesis denominations
	must(a.BankKeeper.SendCoinsFromAccountToModule(ctx, bhUserAcc[0], govtypes.ModuleName, sdk.NewCoins(
		sdk.NewCoin(testDenom, sdkmath.NewInt(300_000_000)), sdk.NewCoin(bhExtraDenoms[0], sdkmath.NewInt(1_000_000)),
		sdk.NewCoin(bhExtraDenoms[1], sdkmath.NewInt(1_000_000)), sdk.NewCoin(bhExtraDenoms[2], sdkmath.NewInt(1_000_000)))))
	_, err := a.StakingKeeper.Undelegate(ctx, bhUserAcc[0], valOper(0), sdk.NewDecFromBigInt(mulE18(100)))
	must(err)
	// users 1 and 2 hold coins that are vested but still locked (they can liquidate)
	for _, u := range []int{1, 2} {
		total := coinsOf(utils.BaseDenom, mulE18(100_000))
		_, err := a.VestingKeeper.ConvertIntoVestingAccount(sdk.WrapSDKContext(ctx), &vestingtypes.MsgConvertIntoVestingAccount{
			FromAddress: bhUserAcc[0].String(), ToAddress: bhUserAcc[u].String(), StartTime: ctx.BlockTime().Add(-time.Hour),
			LockupPeriods:  sdkvesting.Periods{{Length: 7200, Amount: total}},
			VestingPeriods: sdkvesting.Periods{{Length: 0, Amount: total}},
		})
		must(err)
	}
	// the test coin is a registered (native) pair
	_, err = a.Erc20Keeper.RegisterCoin(ctx, banktypes.Metadata{Description: "test coin", Base: testDenom, Display: "test", Name: testDenom, Symbol: "TEST",
		DenomUnits: []*banktypes.DenomUnit{{Denom: testDenom, Exponent: 0}, {Denom: "test", Exponent: 6}}})
	must(err)
	// the first coinomics end-blocker only records the timestamp
	a.CoinomicsKeeper.EndBlocker(ctx)
	boBase = e
	return e
}

func (e *boEnv) fork() *boEnv {
	c, _ := e.Ctx.CacheContext()
	return &boEnv{Rep: e.Rep, Ctx: c, Bank: e.Bank}
}

type boObs struct {
	Bal  [][3]string `json:"bal"`
	Sup  [][2]string `json:"sup"`
	Pool [][2]string `json:"pool"`
}

func boTracked() []int {
	out := []int{0, 1, 2, 3}
	for _, m := range boModules {
		out = append(out, m.ID)
	}
	return out
}

func (e *boEnv) observe() boObs {
	a := e.Rep.App
	o := boObs{Bal: [][3]string{}, Sup: [][2]string{}, Pool: [][2]string{}}
	for _, acc := range boTracked() {
		for d := 0; d < boND; d++ {
			v := a.BankKeeper.GetBalance(e.Ctx, boAcc(acc), boDenom(d)).Amount
			if !v.IsZero() {
				o.Bal = append(o.Bal, [3]string{fmt.Sprint(acc), fmt.Sprint(d), v.String()})
			}
		}
	}
	pool := a.DistrKeeper.GetFeePoolCommunityCoins(e.Ctx)
	for d := 0; d < boND; d++ {
		if v := a.BankKeeper.GetSupply(e.Ctx, boDenom(d)).Amount; !v.IsZero() {
			o.Sup = append(o.Sup, [2]string{fmt.Sprint(d), v.String()})
		}
		if v := pool.AmountOf(boDenom(d)).TruncateInt(); !v.IsZero() {
			o.Pool = append(o.Pool, [2]string{fmt.Sprint(d), v.String()})
		}
	}
	return o
}

func (o boObs) coq() string {
	var b, s, p []string
	for _, x := range o.Bal {
		b = append(b, fmt.Sprintf("(%s%%N, %s%%N, %s)", x[0], x[1], coqZ(bigA(x[2]))))
	}
	for _, x := range o.Sup {
		s = append(s, fmt.Sprintf("(%s%%N, %s)", x[0], coqZ(bigA(x[1]))))
	}
	for _, x := range o.Pool {
		p = append(p, fmt.Sprintf("(%s%%N, %s)", x[0], coqZ(bigA(x[1]))))
	}
	return fmt.Sprintf("(mkobs %s %s %s)", coqList(b), coqList(s), coqList(p))
}

// oracle: the property itself on the real state (all accounts, all denominations)
func (e *boEnv) oracle() string {
	a := e.Rep.App
	sum := sdk.NewCoins()
	a.BankKeeper.IterateAllBalances(e.Ctx, func(_ sdk.AccAddress, c sdk.Coin) bool {
		sum = sum.Add(c)
		return false
	})
	sup := sdk.NewCoins()
	a.BankKeeper.IterateTotalSupply(e.Ctx, func(c sdk.Coin) bool {
		if !c.IsZero() {
			sup = sup.Add(c)
		}
		return false
	})
	if !sum.IsEqual(sup) {
		return fmt.Sprintf("sum of balances %s != supply %s", sum, sup)
	}
	out := a.DistrKeeper.GetTotalRewards(e.Ctx)
	need := out.Add(a.DistrKeeper.GetFeePoolCommunityCoins(e.Ctx)...)
	needInt, _ := need.TruncateDecimal()
	have := a.BankKeeper.GetAllBalances(e.Ctx, authtypes.NewModuleAddress(distrtypes.ModuleName))
	if !have.IsAllGTE(needInt) && !needInt.IsZero() {
		return fmt.Sprintf("distribution account holds %s but owes %s", have, needInt)
	}
	return ""
}

// distrInvariant evaluates the REGISTERED invariant distribution/module-account (balance of the module
// account = outstanding rewards + community pool) on the state of the case.
func (e *boEnv) distrInvariant() (msg string, broken bool) {
	defer func() {
		if x := recover(); x != nil {
			msg, broken = fmt.Sprintf("panic: %v", x), true
		}
	}()
	cctx, _ := e.Ctx.CacheContext()
	return distrkeeper.ModuleAccountInvariant(e.Rep.App.DistrKeeper)(cctx)
}

// touchesDistr: operations of this driver that pay into or out of the distribution account directly, which no
// message can do (the invariant is not expected to survive them).  The user-level operations (signed messages,
// the parameter) are never among them.
func (op boOp) touchesDistr() bool {
	if op.userLevel() {
		return false
	}
	return op.A == 101 || ((op.K == "send" || op.K == "liquidate" || op.K == "redeem") && op.C == 101)
}

func (e *boEnv) apply(op *boOp) (ok bool, errs string) {
	a := e.Rep.App
	cctx, write := e.Ctx.CacheContext()
	defer func() {
		if x := recover(); x != nil {
			ok, errs = false, shortLog(fmt.Sprintf("panic: %v", x))
		}
	}()
	coin := sdk.Coin{Denom: boDenom(op.D), Amount: intA(op.X)}
	coins := sdk.Coins{coin}
	if coin.Amount.IsZero() {
		coins = sdk.Coins{}
	}
	var err error
	switch op.K {
	case "send":
		if coin.Amount.IsNegative() {
			err = fmt.Errorf("negative amount")
		} else {
			switch {
			case op.A >= 100 && op.C >= 100:
				err = a.BankKeeper.SendCoinsFromModuleToModule(cctx, boModName(op.A), boModName(op.C), coins)
			case op.A >= 100:
				err = a.BankKeeper.SendCoinsFromModuleToAccount(cctx, boModName(op.A), boAcc(op.C), coins)
			case op.C >= 100:
				err = a.BankKeeper.SendCoinsFromAccountToModule(cctx, boAcc(op.A), boModName(op.C), coins)
			default:
				err = a.BankKeeper.SendCoins(cctx, boAcc(op.A), boAcc(op.C), coins)
			}
		}
	case "mint":
		if coin.Amount.IsNegative() {
			err = fmt.Errorf("negative amount")
		} else {
			err = a.BankKeeper.MintCoins(cctx, boModName(op.A), coins)
		}
	case "burn":
		if coin.Amount.IsNegative() {
			err = fmt.Errorf("negative amount")
		} else {
			err = e.Bank.BurnCoins(cctx, boModName(op.A), coins)
		}
	case "burncoins":
		var cs sdk.Coins
		cs, op.Cs = boCoins(op.Cs)
		err = e.Bank.BurnCoins(cctx, boModName(op.A), cs)
	case "coinomics":
		c2 := cctx.WithBlockTime(cctx.BlockTime().Add(time.Duration(op.DT) * time.Second))
		before := a.BankKeeper.GetBalance(c2, boAcc(100), utils.BaseDenom).Amount
		a.CoinomicsKeeper.EndBlocker(c2)
		op.X = a.BankKeeper.GetBalance(c2, boAcc(100), utils.BaseDenom).Amount.Sub(before).String()
	case "daofund":
		_, err = ucdaokeeper.NewMsgServerImpl(a.DaoKeeper).Fund(sdk.WrapSDKContext(cctx), ucdaotypes.NewMsgFund(coins, boAcc(op.A)))
	case "liquidate":
		var res *liquidvestingtypes.MsgLiquidateResponse
		res, err = a.LiquidVestingKeeper.Liquidate(sdk.WrapSDKContext(cctx), liquidvestingtypes.NewMsgLiquidate(boAcc(op.A), boAcc(op.C), sdk.NewCoin(utils.BaseDenom, intA(op.X))))
		if err == nil {
			var n int
			fmt.Sscanf(res.Minted.Denom, "aLIQUID%d", &n)
			op.Liquid = n + 2
			e.liqs = append(e.liqs, [2]int{op.Liquid, op.C})
		}
	case "redeem":
		if len(e.liqs) > 0 && op.Ref >= 0 {
			l := e.liqs[op.Ref%len(e.liqs)]
			op.Liquid = l[0]
			if op.A < 0 {
				op.A = l[1]
			}
		}
		if op.A < 0 {
			op.A = 0
		}
		if op.Liquid < 2 {
			op.Liquid = 2
		}
		op.Ref = -1
		ld := boDenom(op.Liquid)
		have := a.BankKeeper.GetBalance(cctx, boAcc(op.A), ld).Amount
		conv := intA(op.X).Sub(have)
		if conv.IsNegative() {
			conv = sdkmath.ZeroInt()
		}
		op.Conv = conv.String()
		_, err = a.LiquidVestingKeeper.Redeem(sdk.WrapSDKContext(cctx), liquidvestingtypes.NewMsgRedeem(boAcc(op.A), boAcc(op.C), sdk.NewCoin(ld, intA(op.X))))
	case "convertcoin":
		_, err = a.Erc20Keeper.ConvertCoin(sdk.WrapSDKContext(cctx), erc20types.NewMsgConvertCoin(coin, common.BytesToAddress(boAcc(op.A)), boAcc(op.A)))
	case "converterc20":
		id := a.Erc20Keeper.GetTokenPairID(cctx, coin.Denom)
		pair, found := a.Erc20Keeper.GetTokenPair(cctx, id)
		if !found {
			err = fmt.Errorf("no pair")
		} else {
			_, err = a.Erc20Keeper.ConvertERC20(sdk.WrapSDKContext(cctx), erc20types.NewMsgConvertERC20(coin.Amount, boAcc(op.A), pair.GetERC20Contract(), common.BytesToAddress(boAcc(op.A))))
		}
	case "setbalance":
		err = a.EvmKeeper.SetBalance(cctx, common.BytesToAddress(boAcc(op.A)), bigA(op.X))
	case "paramerc20": // MsgUpdateParams of x/erc20 through the message router, signed by the governance authority
		p := a.Erc20Keeper.GetParams(cctx)
		p.EnableErc20 = op.X == "1"
		err = routeMsg(a, cctx, &erc20types.MsgUpdateParams{Authority: authtypes.NewModuleAddress(govtypes.ModuleName).String(), Params: p})
	case "msgsend": // the bank message server (Haqq's) through the message router
		pair, found := a.Erc20Keeper.GetTokenPair(cctx, a.Erc20Keeper.GetTokenPairID(cctx, coin.Denom))
		op.Paired = found && pair.Enabled
		op.Conv = a.BankKeeper.SpendableCoins(cctx, boAcc(op.A)).AmountOf(coin.Denom).String()
		err = routeMsg(a, cctx, &banktypes.MsgSend{FromAddress: boAcc(op.A).String(), ToAddress: boAcc(op.C).String(), Amount: sdk.Coins{coin}})
	case "msgmultisend":
		total := sdkmath.ZeroInt()
		var outs []banktypes.Output
		for _, o := range op.Outs {
			total = total.Add(intA(o.X))
			outs = append(outs, banktypes.Output{Address: boAcc(o.D).String(), Coins: sdk.Coins{sdk.Coin{Denom: boDenom(op.D), Amount: intA(o.X)}}})
		}
		err = routeMsg(a, cctx, &banktypes.MsgMultiSend{Inputs: []banktypes.Input{{Address: boAcc(op.A).String(), Coins: sdk.Coins{sdk.Coin{Denom: boDenom(op.D), Amount: total}}}}, Outputs: outs})
	default:
		err = fmt.Errorf("unknown op")
	}
	if err != nil {
		return false, shortLog(err.Error())
	}
	write()
	return true, ""
}

func (op boOp) userLevel() bool { return op.K == "paramerc20" || op.K == "msgsend" || op.K == "msgmultisend" }

// coq: the operation as a [uop] of Bank/InvariantModel.v: the module operations wrapped in UMod, the signed
// messages and the parameter as they are.
func (op boOp) coq() string {
	n := func(i int) string { return fmt.Sprintf("%d%%N", i) }
	x := coqZ(bigA(op.X))
	switch op.K {
	case "paramerc20":
		return fmt.Sprintf("UParamErc20 %s", coqBool(op.X == "1"))
	case "msgsend":
		return fmt.Sprintf("UMsgSend %s %s %s %s %s %s", n(op.A), n(op.C), n(op.D), x, coqBool(op.Paired), coqZ(bigA(op.Conv)))
	case "msgmultisend":
		var outs []string
		for _, o := range op.Outs {
			outs = append(outs, fmt.Sprintf("(%s, %s)", n(o.D), coqZ(bigA(o.X))))
		}
		return fmt.Sprintf("UMsgMultiSend %s %s %s", n(op.A), n(op.D), coqList(outs))
	}
	return "UMod (" + op.hopCoq() + ")"
}

func (op boOp) hopCoq() string {
	n := func(i int) string { return fmt.Sprintf("%d%%N", i) }
	x := coqZ(bigA(op.X))
	switch op.K {
	case "send":
		return fmt.Sprintf("HSend %s %s %s %s", n(op.A), n(op.C), n(op.D), x)
	case "mint":
		return fmt.Sprintf("HMint %s %s %s", n(op.A), n(op.D), x)
	case "burn":
		return fmt.Sprintf("HBurn %s %s %s", n(op.A), n(op.D), x)
	case "burncoins":
		var cs []string
		for _, c := range op.Cs {
			cs = append(cs, fmt.Sprintf("(%s, %s)", n(c.D), coqZ(bigA(c.X))))
		}
		return fmt.Sprintf("HBurnCoins %s %s", n(op.A), coqList(cs))
	case "coinomics":
		return fmt.Sprintf("HCoinomicsMint %s", x)
	case "daofund":
		return fmt.Sprintf("HDaoFund %s %s %s", n(op.A), n(op.D), x)
	case "liquidate":
		return fmt.Sprintf("HLiquidate %s %s %s %s", n(op.A), n(op.C), n(op.Liquid), x)
	case "redeem":
		return fmt.Sprintf("HRedeem %s %s %s %s %s", n(op.A), n(op.C), n(op.Liquid), x, coqZ(bigA(op.Conv)))
	case "convertcoin":
		return fmt.Sprintf("HConvertCoin %s %s %s true", n(op.A), n(op.D), x)
	case "converterc20":
		return fmt.Sprintf("HConvertERC20 %s %s %s true", n(op.A), n(op.D), x)
	case "setbalance":
		return fmt.Sprintf("HSetBalance %s %s", n(op.A), x)
	}
	return "HSend 0%N 0%N 0%N 0%Z"
}

func boRunCase(id string, in boInput) Case {
	e := boBaseEnv().fork()
	obs0 := e.observe()
	type step struct {
		Op  boOp   `json:"op"`
		OK  bool   `json:"ok"`
		Err string `json:"err,omitempty"`
		Obs boObs  `json:"obs"`
	}
	var steps []step
	var cs []string
	oracle := e.oracle()
	nok := 0
	tags := map[string]bool{}
	for i := range in.Ops {
		op := in.Ops[i]
		_, brokenBefore := e.distrInvariant()
		ok, errs := e.apply(&op)
		in.Ops[i] = op
		if msg, brokenAfter := e.distrInvariant(); brokenAfter && !brokenBefore && !op.touchesDistr() && oracle == "" {
			oracle = fmt.Sprintf("after op %d (%s): registered invariant distribution/module-account held before and is broken now: %s", i, op.K, shortLog(msg))
		}
		if ok && oracle == "" {
			// a signed message that names a blocked address (module account, precompile address) as recipient must be refused
			var to []int
			switch op.K {
			case "msgsend":
				to = []int{op.C}
			case "msgmultisend":
				for _, o := range op.Outs {
					to = append(to, o.D)
				}
			}
			for _, c := range to {
				if c >= 100 && e.Rep.App.BankKeeper.BlockedAddr(boAcc(c)) {
					oracle = fmt.Sprintf("op %d (%s) signed by user %d was ACCEPTED although its recipient %d (%s) is a blocked address (ERC20 module enabled: %v)",
						i, op.K, op.A, c, boAcc(c), e.Rep.App.Erc20Keeper.IsERC20Enabled(e.Ctx))
				}
			}
		}
		if ok && op.K == "burncoins" {
			if len(op.Cs) > 1 {
				tags["burncoins-ok:several-denominations"] = true
			}
			if op.A == 102 || op.A == 103 || op.A == 104 {
				tags[fmt.Sprintf("burncoins-ok:redirected:%d-coins", len(op.Cs))] = true
			}
		}
		o := e.observe()
		steps = append(steps, step{op, ok, errs, o})
		cs = append(cs, fmt.Sprintf("(%s, %s, %s)", op.coq(), coqBool(ok), o.coq()))
		if ok {
			nok++
			tags["op-ok:"+op.K] = true
		} else {
			tags["op-rejected:"+op.K] = true
		}
		if oracle == "" {
			if m := e.oracle(); m != "" {
				oracle = fmt.Sprintf("after op %d (%s): %s", i, op.K, m)
			}
		}
	}
	ds := []string{}
	for d := 0; d < boND; d++ {
		ds = append(ds, fmt.Sprintf("%d%%N", d))
	}
	c := Case{ID: id, Kind: "bankops", Input: in, Obs: map[string]interface{}{"before": obs0, "steps": steps}}
	c.Coq = fmt.Sprintf("(%s, %s, %s)", coqList(ds), obs0.coq(), coqList(cs))
	c.CoqList = "ops"
	c.OracleOK = oracle == ""
	c.OracleMsg = oracle
	c.Nontrivial = nok >= 2
	kb, _ := json.Marshal(in)
	c.Key = string(kb)
	for t := range tags {
		c.Tags = append(c.Tags, t)
	}
	sort.Strings(c.Tags)
	return c
}

func boGen(r *Rng) boInput {
	in := boInput{}
	n := 4 + r.Intn(6)
	amt := func(maxE18 int64) string {
		switch r.Intn(10) {
		case 0:
			return "0"
		case 1:
			return big.NewInt(int64(1 + r.Intn(1000))).String()
		case 2:
			return new(big.Int).Mul(mulE18(maxE18), big.NewInt(1000)).String() // more than anyone holds
		}
		x := new(big.Int).Mul(mulE18(1), big.NewInt(int64(1+r.Intn(int(maxE18)))))
		return x.Add(x, big.NewInt(int64(r.Intn(1000)))).String()
	}
	liquid := 0     // liquid denominations created so far in this case
	erc := [4]int{} // 1 = holds ERC20 test tokens
	blockedIDs := []int{101, 102, 103, 104, 101, 102, 103, 104, 100, 105, 106, 107, 108, 109, 110, 111, 112, 120, 121, 122, 123, 124, 125}
	recipient := func(pBlocked int) int {
		if r.Chance(pBlocked) {
			return blockedIDs[r.Intn(len(blockedIDs))]
		}
		return r.Intn(4)
	}
	for len(in.Ops) < n {
		if r.Chance(24) {
			// user level: the x/erc20 parameter and signed bank messages, half of them to blocked addresses
			switch k := r.Intn(100); {
			case k < 25:
				in.Ops = append(in.Ops, boOp{K: "paramerc20", X: []string{"0", "0", "0", "1", "1"}[r.Intn(5)]})
			case k < 80:
				d := []int{0, 0, 0, 1, 1, 6, 7}[r.Intn(7)]
				x := amt(50)
				if d != 0 {
					x = big.NewInt(int64(r.Intn(1_500_000_000))).String()
				}
				in.Ops = append(in.Ops, boOp{K: "msgsend", A: []int{0, 3, 0, 3, 1, 2}[r.Intn(6)], C: recipient(50), D: d, X: x})
			default:
				d := []int{0, 0, 1}[r.Intn(3)]
				var outs []boCoin
				for i, m := 0, 1+r.Intn(3); i < m; i++ {
					x := amt(20)
					if d != 0 {
						x = big.NewInt(int64(r.Intn(400_000_000))).String()
					}
					outs = append(outs, boCoin{D: recipient(25), X: x})
				}
				in.Ops = append(in.Ops, boOp{K: "msgmultisend", A: []int{0, 3}[r.Intn(2)], D: d, Outs: outs})
			}
			continue
		}
		switch k := r.Intn(100); {
		case k < 12:
			from := []int{0, 3, 0, 3, 105, 109}[r.Intn(6)]
			d := []int{0, 1, 0, 1, 6, 7, 8}[r.Intn(7)]
			x := amt(50)
			if d != 0 {
				x = big.NewInt(int64(r.Intn(1_500_000_000))).String()
			}
			in.Ops = append(in.Ops, boOp{K: "send", A: from, C: boTracked()[r.Intn(14)], D: d, X: x})
		case k < 20:
			in.Ops = append(in.Ops, boOp{K: "mint", A: []int{105, 107, 108, 109}[r.Intn(4)], D: r.Intn(3), X: amt(50)})
		case k < 30:
			in.Ops = append(in.Ops, boOp{K: "burn", A: []int{102, 103, 104, 104, 102, 107, 108, 109}[r.Intn(8)], D: []int{0, 0, 0, 1, 6 + r.Intn(3)}[r.Intn(5)], X: amt(60)})
		case k < 40:
			// a coin list in several denominations, mostly from governance (a deposit holds any denominations)
			m := []int{104, 104, 104, 104, 104, 104, 104, 102, 103, 107, 108, 109}[r.Intn(12)]
			ds := []int{0, 1, 6, 7, 8}
			if m != 104 && r.Chance(60) {
				ds = []int{0} // the other modules hold further denominations only if an earlier send brought them
			}
			for i := len(ds) - 1; i > 0; i-- {
				j := r.Intn(i + 1)
				ds[i], ds[j] = ds[j], ds[i]
			}
			var cs []boCoin
			for _, d := range ds[:1+r.Intn(minInt(4, len(ds)))] {
				x := big.NewInt(int64(1 + r.Intn(400_000))).String()
				if d == 0 {
					x = amt(60)
				}
				switch r.Intn(40) {
				case 0:
					x = "0" // an invalid list
				case 1:
					x = "3000000000" // more than the module holds: the whole list must be refused
				}
				cs = append(cs, boCoin{D: d, X: x})
			}
			if r.Chance(4) {
				cs = append(cs, cs[0]) // a denomination twice
			}
			in.Ops = append(in.Ops, boOp{K: "burncoins", A: m, Cs: cs})
		case k < 48:
			in.Ops = append(in.Ops, boOp{K: "coinomics", DT: int64(1 + r.Intn(100000))})
		case k < 56:
			in.Ops = append(in.Ops, boOp{K: "daofund", A: []int{0, 3}[r.Intn(2)], D: []int{0, 0, 0, 1}[r.Intn(4)], X: amt(50)})
		case k < 70:
			if liquid < 4 {
				in.Ops = append(in.Ops, boOp{K: "liquidate", A: 1 + r.Intn(2), C: r.Intn(4), X: amt(500)})
				liquid++ // a rejected liquidation does not create a denomination; the harness fixes the index from the response
			}
		case k < 80:
			if liquid > 0 {
				who := -1
				if r.Chance(15) {
					who = r.Intn(4)
				}
				in.Ops = append(in.Ops, boOp{K: "redeem", A: who, C: r.Intn(4), Ref: r.Intn(liquid), X: amt(40)})
			}
		case k < 88:
			u := []int{0, 3}[r.Intn(2)]
			in.Ops = append(in.Ops, boOp{K: "convertcoin", A: u, D: 1, X: big.NewInt(int64(1 + r.Intn(2_000_000))).String()})
			erc[u] = 1
		case k < 94:
			u := []int{0, 3}[r.Intn(2)]
			if erc[u] == 1 || r.Chance(20) {
				in.Ops = append(in.Ops, boOp{K: "converterc20", A: u, D: 1, X: big.NewInt(int64(1 + r.Intn(1_000_000))).String()})
			}
		default:
			u := []int{0, 3}[r.Intn(2)]
			v := mulE18(int64(r.Intn(10_000_000)))
			in.Ops = append(in.Ops, boOp{K: "setbalance", A: u, X: v.String()})
		}
	}
	return in
}

func minInt(a, b int) int {
	if a < b {
		return a
	}
	return b
}

func bankopsDriver(cfg Config, out *Out) error {
	if cfg.Replay != "" {
		i := 0
		return readReplayInputs(cfg.Replay, func(raw json.RawMessage) error {
			var in boInput
			if err := json.Unmarshal(raw, &in); err != nil {
				return err
			}
			out.Emit(boRunCase(fmt.Sprintf("replay-%d", i), in))
			i++
			return nil
		})
	}
	r := NewRng(cfg.Seed)
	for i := 0; i < cfg.N; i++ {
		out.Emit(boRunCase(fmt.Sprintf("s%d-%d", cfg.Seed, i), boGen(r.Fork())))
	}
	return nil
}

var _ = strings.Join
var _ = tmproto.Header{}
