package main

// A tiny EVM assembler (no solc in this sandbox) and the generic "script"
// contract used by the EVM drivers: its calldata is a list of instructions
// (SSTORE, CALL with a nested script or precompile payload, LOG, BALANCE,
// REVERT, SELFDESTRUCT), so one deployed bytecode can play any frame of any call tree.

import (
	"encoding/binary"
	"fmt"
	"math/big"
	"strconv"
	"strings"
)

var opcodes = map[string]byte{
	"STOP": 0x00, "ADD": 0x01, "MUL": 0x02, "SUB": 0x03, "LT": 0x10, "GT": 0x11, "EQ": 0x14, "ISZERO": 0x15,
	"AND": 0x16, "OR": 0x17, "BYTE": 0x1a, "ADDRESS": 0x30, "BALANCE": 0x31, "ORIGIN": 0x32, "CALLER": 0x33,
	"CALLVALUE": 0x34, "CALLDATALOAD": 0x35, "CALLDATASIZE": 0x36, "CALLDATACOPY": 0x37, "POP": 0x50,
	"MLOAD": 0x51, "MSTORE": 0x52, "SLOAD": 0x54, "SSTORE": 0x55, "JUMP": 0x56, "JUMPI": 0x57, "GAS": 0x5a,
	"JUMPDEST": 0x5b, "LOG0": 0xa0, "LOG1": 0xa1, "LOG3": 0xa3, "CALL": 0xf1, "RETURN": 0xf3, "REVERT": 0xfd,
	"SELFDESTRUCT": 0xff, "RETURNDATASIZE": 0x3d, "RETURNDATACOPY": 0x3e, "CODECOPY": 0x39, "SELFBALANCE": 0x47,
	"CODESIZE": 0x38, "EXTCODESIZE": 0x3b, "EXTCODECOPY": 0x3c, "CREATE": 0xf0, "DELEGATECALL": 0xf4, "CREATE2": 0xf5,
}

// assemble: one token per whitespace; "name:" defines a label (emits JUMPDEST),
// "@name" pushes the label with PUSH2, a number (decimal or 0x..) is pushed
// with the shortest PUSHn, DUPn/SWAPn are recognised.
func assemble(src string) []byte {
	toks := strings.Fields(src)
	labels := map[string]int{}
	// two passes; every label reference is PUSH2 so sizes are stable
	var out []byte
	for pass := 0; pass < 2; pass++ {
		out = out[:0]
		for _, t := range toks {
			switch {
			case strings.HasSuffix(t, ":"):
				labels[t[:len(t)-1]] = len(out)
				out = append(out, 0x5b)
			case strings.HasPrefix(t, "@"):
				pos, ok := labels[t[1:]]
				if pass == 1 && !ok {
					panic("asm: unknown label " + t)
				}
				out = append(out, 0x61, byte(pos>>8), byte(pos))
			case strings.HasPrefix(t, "DUP"):
				n, _ := strconv.Atoi(t[3:])
				out = append(out, byte(0x80+n-1))
			case strings.HasPrefix(t, "SWAP"):
				n, _ := strconv.Atoi(t[4:])
				out = append(out, byte(0x90+n-1))
			default:
				if op, ok := opcodes[t]; ok {
					out = append(out, op)
					continue
				}
				v, ok := new(big.Int).SetString(t, 0)
				if !ok {
					panic("asm: bad token " + t)
				}
				b := v.Bytes()
				if len(b) == 0 {
					b = []byte{0}
				}
				out = append(out, byte(0x60+len(b)-1))
				out = append(out, b...)
			}
		}
	}
	return out
}

// scriptContract is the generic interpreter.  Instruction encoding (p = offset in calldata):
//   01 key(32) value(32)                       SSTORE
//   02 flags(1) target(32) value(32) len(32) payload(len)   CALL; flags bit0 = tolerate failure (catch),
//                                                            bit1 = record (success+1) in storage slot 0xC0DE0000+p,
//                                                            bit2 = forward 3,000,000 gas instead of all (a failing precompile burns what it was given)
//   03                                         LOG0
//   04                                         REVERT
//   05 addr(32)                                BALANCE (loads the account into the StateDB cache)
//   06 addr(32)                                SELFDESTRUCT to addr (halts the frame)
//   07 flags(1) value(32) len(32) initcode(len) CREATE with that init code; flags bit0 / bit1 as for CALL (success = an address came back)
//   anything else / end of calldata            STOP
const scriptAsm = `
  0 0 MSTORE
loop:
  0 MLOAD
  CALLDATASIZE DUP2 LT ISZERO @stop JUMPI
  DUP1 CALLDATALOAD 0 BYTE
  DUP1 1 EQ @do_sstore JUMPI
  DUP1 2 EQ @do_call JUMPI
  DUP1 3 EQ @do_log JUMPI
  DUP1 4 EQ @do_revert JUMPI
  DUP1 5 EQ @do_balance JUMPI
  DUP1 6 EQ @do_selfdestruct JUMPI
  DUP1 7 EQ @do_create JUMPI
stop:
  STOP
do_sstore:
  POP
  DUP1 33 ADD CALLDATALOAD
  DUP2 1 ADD CALLDATALOAD
  SSTORE
  65 ADD 0 MSTORE
  @loop JUMP
do_log:
  POP
  0 0 LOG0
  1 ADD 0 MSTORE
  @loop JUMP
do_revert:
  0 0 REVERT
do_balance:
  POP
  DUP1 1 ADD CALLDATALOAD BALANCE POP
  33 ADD 0 MSTORE
  @loop JUMP
do_selfdestruct:
  POP
  DUP1 1 ADD CALLDATALOAD SELFDESTRUCT
do_create:
  POP
  DUP1 34 ADD CALLDATALOAD
  DUP1 DUP3 66 ADD 0x80 CALLDATACOPY
  DUP1 0x80 DUP4 2 ADD CALLDATALOAD
  CREATE
  ISZERO ISZERO
  DUP3 1 ADD CALLDATALOAD 0 BYTE
  DUP1 2 AND ISZERO @cr_norecord JUMPI
  DUP2 1 ADD
  DUP5 0xC0DE0000 ADD
  SSTORE
cr_norecord:
  1 AND
  OR
  ISZERO @do_revert JUMPI
  ADD 66 ADD 0 MSTORE
  @loop JUMP
do_call:
  POP
  DUP1 66 ADD CALLDATALOAD
  DUP1
  DUP3 98 ADD
  0x80
  CALLDATACOPY
  0 0
  DUP3
  0x80
  DUP6 34 ADD CALLDATALOAD
  DUP7 2 ADD CALLDATALOAD
  DUP8 1 ADD CALLDATALOAD 0 BYTE 4 AND @limgas JUMPI
  GAS @docall JUMP
limgas:
  3000000
docall:
  CALL
  DUP3 1 ADD CALLDATALOAD 0 BYTE
  DUP1 2 AND ISZERO @norecord JUMPI
  DUP2 1 ADD
  DUP5 0xC0DE0000 ADD
  SSTORE
norecord:
  1 AND
  OR
  ISZERO @do_revert JUMPI
  ADD 98 ADD 0 MSTORE
  @loop JUMP
`

var scriptCode = assemble(scriptAsm)

func word(x *big.Int) []byte {
	b := make([]byte, 32)
	x.FillBytes(b)
	return b
}
func wordU(x uint64) []byte {
	b := make([]byte, 32)
	binary.BigEndian.PutUint64(b[24:], x)
	return b
}

func encSStore(k, v uint64) []byte { return append(append([]byte{1}, wordU(k)...), wordU(v)...) }
func encLog() []byte               { return []byte{3} }
func encRevert() []byte            { return []byte{4} }
func encBalance(addr []byte) []byte {
	w := make([]byte, 32)
	copy(w[12:], addr)
	return append([]byte{5}, w...)
}
func encSelfdestruct(addr []byte) []byte {
	w := make([]byte, 32)
	copy(w[12:], addr)
	return append([]byte{6}, w...)
}
// encCreate: CREATE instruction of the script; initcode from ctorInit
func encCreate(flags byte, value *big.Int, initcode []byte) []byte {
	out := []byte{7, flags}
	out = append(out, word(value)...)
	out = append(out, wordU(uint64(len(initcode)))...)
	return append(out, initcode...)
}

// ctorInit builds init code whose constructor runs `script` AS THE NEW CONTRACT (DELEGATECALL into the library copy of
// the script interpreter with the script as calldata), reverts when the script fails, and then returns the
// interpreter as runtime code (setcode) or empty runtime code.  Layout: stub ++ script.
func ctorInit(lib []byte, script []byte, setcode bool) []byte {
	libHex := fmt.Sprintf("0x%x", lib)
	ret := "0 0 RETURN"
	if setcode {
		ret = libHex + " EXTCODESIZE DUP1 0 0 " + libHex + " EXTCODECOPY 0 RETURN"
	}
	mk := func(stubLen int) []byte {
		return assemble(fmt.Sprintf(`
  %d CODESIZE SUB
  DUP1 %d 0x80 CODECOPY
  0 0 DUP3 0x80 %s GAS DELEGATECALL
  ISZERO @fail JUMPI
  POP
  %s
fail:
  0 0 REVERT
`, stubLen, stubLen, libHex, ret))
	}
	// the stub's length enters the stub as a push of fixed width: two passes with a 2-byte value
	n := len(mk(0x0100))
	stub := mk(n)
	if len(stub) != n {
		n = len(stub)
		stub = mk(n)
	}
	if len(stub) != n {
		panic("ctorInit: unstable stub length")
	}
	return append(stub, script...)
}

func encCall(flags byte, target []byte, value *big.Int, payload []byte) []byte {
	w := make([]byte, 32)
	copy(w[12:], target)
	out := []byte{2, flags}
	out = append(out, w...)
	out = append(out, word(value)...)
	out = append(out, wordU(uint64(len(payload)))...)
	return append(out, payload...)
}

var _ = fmt.Sprint
