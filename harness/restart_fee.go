package main

// Driver "restart" (property C20), part 3: the FEE-MARKET REGIME of a history.
//
// The base fee is state that every BeginBlock rewrites (x/feemarket CalculateBaseFee).  With the chain of chain.go
// (base fee 10^9, Block.MaxGas 40,000,000, transactions of at most 2,000,000 gas) no block is ever above the gas target:
// only the decrease branch runs.  A history may therefore name a regime (hInput.Fee: x/feemarket genesis parameters and
// the consensus Block.MaxGas, the same type the block histories of C01 / C15 use, feeregime.go): a base fee at or near
// its natural floor and a finite, small block gas limit; and blocks are made heavy by the op
//
//	{"op":"gasburst","a":account,"k":n,"v":gas}   n Ethereum transfers of account a that declare v gas each
//
// whose declared gas (x MinGasMultiplier) lifts the gas figure of the block above the target: the NEXT BeginBlock takes
// the increase branch, with a tiny base fee its "minimum step" of 1.  The generator places process restarts between two
// such steps.
//
// Every BeginBlock of every application instance is recorded as a feeStep (parameters read, height, Block.MaxGas, stored
// gas figure of the parent block, base fee found afterwards) and handed to the Coq model: the fee-market step of
// App/ProcRestartModel.v must store the same value whatever the life of the process was.

import (
	"fmt"
	"math/big"
	"sort"
	"strings"

	tmproto "github.com/cometbft/cometbft/proto/tendermint/types"
	sdk "github.com/cosmos/cosmos-sdk/types"
	"github.com/ethereum/go-ethereum/common"

	feemarkettypes "github.com/haqq-network/haqq/x/feemarket/types"
)

// feeSeg: the base-fee updates of one application instance; NewProc: the instance ran in an operating-system
// process of its own (started on a copy of the database), not in the process of the continuous node.
type feeSeg struct {
	NewProc bool
	Steps   []feeStep
}

func (s feeSeg) coq() string {
	items := []string{}
	for _, st := range s.Steps {
		after := "None"
		if st.After != "nil" {
			after = "(Some " + coqZ(mustBig(st.After)) + ")"
		}
		items = append(items, fmt.Sprintf("(%s, %s, (Some %s), %s, %s)", st.P.coq(), coqZi(st.Height), coqZi(st.MaxGas), coqZ(new(big.Int).SetUint64(st.G)), after))
	}
	return fmt.Sprintf("(%s, %s)", coqBool(s.NewProc), coqList(items))
}

// feeParent: what the next BeginBlock's base-fee computation will read.
type feeParent struct {
	P      feemarkettypes.Params
	G      uint64
	MaxGas int64
	OK     bool
}

// openCtx: a context over what the node's database holds at the boundary (before the first commit of a new chain:
// the state InitChain prepared).
func openCtx(c *Chain) sdk.Context {
	if c.Height == 0 {
		return c.App.BaseApp.NewContext(false, tmproto.Header{ChainID: chainID})
	}
	return committedCtx(c.App, c.header(c.Height, c.Time))
}

func feeParentOf(c *Chain) (fp feeParent) {
	defer func() {
		if r := recover(); r != nil {
			fp = feeParent{}
		}
	}()
	ctx := openCtx(c)
	fp.P = c.App.FeeMarketKeeper.GetParams(ctx)
	fp.G = c.App.FeeMarketKeeper.GetBlockGasWanted(ctx)
	fp.MaxGas = -1
	if cp := c.App.BaseApp.GetConsensusParams(ctx); cp != nil && cp.Block != nil {
		fp.MaxGas = cp.Block.MaxGas
	}
	fp.OK = true
	return fp
}

// feeStepOf: called right after BeginBlock of the open block.
func feeStepOf(c *Chain, fp feeParent) *feeStep {
	if !fp.OK {
		return nil
	}
	now := c.App.FeeMarketKeeper.GetParams(c.Ctx())
	st := feeStep{Height: c.Hdr.Height, P: fmParamsOf(fp.P), MaxGas: fp.MaxGas, G: fp.G, After: "nil"}
	if !now.BaseFee.IsNil() {
		st.After = now.BaseFee.BigInt().String()
	}
	var want string
	st.Kind, want = feeKind(st.P, st.Height, st.MaxGas, st.G)
	if want == "" {
		want = st.P.BaseFee
	}
	st.Agrees = want == st.After
	return &st
}

// feeTags: which branches of the update the continuous node took, how often the minimum step, and whether a node was
// restarted (in the process / as a new process) between two minimum steps.
func feeTags(steps []feeStep, in hInput, inProcessRestarts bool) []string {
	seen := map[string]bool{}
	var mins []int64 // heights whose BeginBlock took the minimum step
	for _, s := range steps {
		seen["fee:"+s.Kind] = true
		if s.Kind == "increase-min-step" {
			mins = append(mins, s.Height)
		}
		if !s.Agrees {
			seen["fee:stored-base-fee-differs-from-closed-formula"] = true
		}
	}
	switch n := len(mins); {
	case n >= 2:
		seen["fee:min-step-twice-or-more"] = true
		// a restart at boundary k (before block index k, height k+1) lies between two minimum steps when
		// the first was taken at a height <= k and a later one at a height >= k+1
		for k := 1; k < len(in.Blocks); k++ {
			if int64(k) >= mins[0] && int64(k+1) <= mins[n-1] {
				if in.Blocks[k].Proc {
					seen["fee:new-process-between-min-steps"] = true
				}
				if inProcessRestarts {
					seen["fee:restart-between-min-steps"] = true
				}
			}
		}
	case n == 1:
		seen["fee:min-step-once"] = true
	}
	out := []string{}
	for k := range seen {
		out = append(out, k)
	}
	sort.Strings(out)
	return out
}

// ---------------------------------------------------------------- op "gasburst"
func (h *hist) applyGasBurst(op hOp, a int) error {
	c := h.c
	n := int(op.K)
	if n <= 0 {
		n = 1
	}
	if n > 8 {
		n = 8
	}
	gas := op.V
	if gas < 21_000 {
		gas = 21_000
	}
	to := common.BytesToAddress(plainAddr("burst", op.B))
	okN := 0
	var last error
	for i := 0; i < n; i++ {
		bz, _, err := c.EthTx(c.Ctx(), a, &to, big.NewInt(1), nil, gas, 0)
		if err != nil {
			return err
		}
		res := c.Deliver(bz)
		h.gasUsed += res.GasUsed
		if res.Code != 0 {
			last = fmt.Errorf("code %d: %s", res.Code, trunc(res.Log, 160))
		} else {
			okN++
		}
	}
	if okN == 0 {
		return last
	}
	return nil
}

// ---------------------------------------------------------------- generator
// restartFeeRegime turns a generated history into one of the low-base-fee regime: genesis parameters, two (or three)
// heavy blocks, and restarts as new processes at boundaries between the minimum steps they cause.  r is a generator of
// its own: the base history is the one the main generator produced.
func restartFeeRegime(r *Rng, in hInput) hInput {
	nb := len(in.Blocks)
	if nb < 4 {
		return in
	}
	// the regime is the subject: updates of the fee market's own parameters and of the consensus block parameters that
	// the base history carries would replace it (other histories keep them)
	for b := range in.Blocks {
		keep := in.Blocks[b].Ops[:0:0]
		for _, o := range in.Blocks[b].Ops {
			if o.Op == "fmparams" || (o.Op == "params" && (o.Mod == "feemarket" || o.Mod == "consensus")) {
				continue
			}
			keep = append(keep, o)
		}
		in.Blocks[b].Ops = keep
	}
	mult := pickStr(r, "0.5", "0.5", "1")
	maxGas := fmPick64(r, 3_000_000, 6_000_000, 8_000_000)
	in.Fee = &bhFeeMarket{
		BaseFee:     pickStr(r, "0", "1", "3", "6", "7", "7", "7", "8", "10"),
		Denom:       pickU32(r, 8, 8, 8, 2, 50),
		Elasticity:  pickU32(r, 2, 2, 2, 3, 4),
		MaxGas:      maxGas,
		MinGasMult:  mult,
		MinGasPrice: pickStr(r, "", "", "", "0.5", "1"),
	}
	// declared gas of a burst: 2 transactions, together 3/4 of Block.MaxGas after the multiplier (above the target for
	// every elasticity >= 2, inside the block gas meter)
	per := uint64(maxGas) * 3 / 8
	if mult == "0.5" {
		per *= 2
	}
	if per > uint64(maxGas) {
		per = uint64(maxGas)
	}
	hA := 1 + r.Intn(nb-2)          // height of the first heavy block: 1 .. nb-2
	hB := hA + 1 + r.Intn(nb-1-hA) // second heavy block: hA+1 .. nb-1 (its successor computes the second step)
	burst := func(height int) {
		b := &in.Blocks[height-1]
		op := hOp{Op: "gasburst", A: r.Intn(chainNAccts), B: r.Intn(3), K: 2, V: per}
		if r.Chance(50) {
			b.Ops = append([]hOp{op}, b.Ops...)
		} else {
			b.Ops = append(b.Ops, op)
		}
	}
	burst(hA)
	burst(hB)
	if hB+1 < nb && r.Chance(40) {
		burst(hB + 1)
	}
	// boundaries hA+1 .. hB lie between the two minimum steps (taken by BeginBlock of hA+1 and of hB+1)
	in.Blocks[hA+1].Proc = true // boundary hA+1: right after the block that took the first step
	if hB > hA+1 && r.Chance(60) {
		in.Blocks[hB].Proc = true // boundary hB: right before the block that takes the second
	}
	return in
}

// restartProcPoints flags one or two boundaries of a history of the default regime for a restart as a new process:
// the boundary right after the first parameter update (when there is a block after it), and a random one.
func restartProcPoints(r *Rng, in hInput) hInput {
	nb := len(in.Blocks)
	if nb < 2 {
		return in
	}
	placed := false
	for b, blk := range in.Blocks {
		hit := false
		for _, o := range blk.Ops {
			hit = hit || o.Op == "params" || strings.HasSuffix(o.Op, "params")
		}
		if hit {
			if b+1 < nb {
				in.Blocks[b+1].Proc = true
				placed = true
			}
			break
		}
	}
	if !placed || r.Chance(40) {
		in.Blocks[1+r.Intn(nb-1)].Proc = true
	}
	return in
}
