package main

// Driver "stakequery" (property C16, read-only half over UNUSUAL staking states).
//
// "The read-only staking methods report the same delegations, unbondings, redelegations and
// validators as the native queries."
//
// A case is a script (the state-building operations of the stakestates driver: delegate /
// undelegate / redelegate by several delegators with odd amounts, slash by assorted fractions -
// several times -, jail, empty a validator, end blocks, let time pass, rewards, ...) run through
// the real keepers on three validators, followed by QUESTIONS.  Every question is asked twice in
// the state the script built:
//   (a) as an Ethereum call (EvmKeeper.ApplyMessage, no commit) of the staking precompile's
//       delegation / unbondingDelegation / validator / validators / redelegation / redelegations;
//   (b) as the native gRPC query, through the application's GRPCQueryRouter
//       (/cosmos.staking.v1beta1.Query/Delegation, UnbondingDelegation, Validator, Validators,
//       Redelegations) - protobuf request in, protobuf response out, as a client gets it.
// The oracle: when the native query answers, the precompile call succeeds and EVERY field of its
// answer equals the corresponding field of the native answer (amounts as integers, LegacyDec
// values as their 10^18-scaled integers, addresses, creation heights, completion / unbonding
// times as Unix seconds, unbonding ids, the order of list entries, pagination next key and
// total).  When the native query says "not found" the precompile may fail or report the empty
// answer, but must not report a record.  When the native query fails otherwise (malformed
// address, unknown status, key and offset together) nothing is demanded.  (Finding F12, fixed in /repo: a list
// method called with an offset > 0 used to fail through the precompile, because the ABI-decoded page key is an
// empty but non-nil byte string.)
//
// Without explicit questions ("only": false) the case asks everything: every account (six actors
// and a stranger) x every validator (three and an address without a record) for delegation and
// unbondingDelegation, every (delegator, source, destination) for redelegation(s), every
// validator, the validator list by status with paging (limit, offset, reverse, count total,
// following next keys), redelegation lists by delegator and by source validator with paging.
// A failing case is reported with "only": true and the one failing question.
//
// The delegation questions also go to Coq (list "squery"): validator record and delegation shares
// as the keeper holds them, the precompile's answer, the query's answer, compared with
// Staking/StakeModel.v (precompile_delegation_query, native_delegation_query: the truncation rule).

import (
	"encoding/base64"
	"encoding/hex"
	"encoding/json"
	"fmt"
	"math/big"
	"reflect"
	"sort"
	"strconv"
	"strings"

	abci "github.com/cometbft/cometbft/abci/types"
	cryptotypes "github.com/cosmos/cosmos-sdk/crypto/types"
	sdk "github.com/cosmos/cosmos-sdk/types"
	"github.com/cosmos/cosmos-sdk/types/query"
	stakingtypes "github.com/cosmos/cosmos-sdk/x/staking/types"
	"github.com/cosmos/gogoproto/proto"
	"github.com/ethereum/go-ethereum/accounts/abi"
	"github.com/ethereum/go-ethereum/common"
	"google.golang.org/grpc/codes"
	"google.golang.org/grpc/status"
)

func init() { register("stakequery", sqDriver) }

const (
	sqStranger = 6  // an account without any staking record
	sqZeroAddr = -1 // the zero address: "no delegator filter" of redelegations
	sqBadVal   = 4  // a validator string that is not bech32
	sqNoFilter = -1 // "": no validator filter of redelegations
)

type sqQuery struct {
	M      string `json:"m"`                // delegation unbonding validator validators redelegation redelegations
	Who    int    `json:"who,omitempty"`    // actor 0..5, 6 = an account without any record, -1 = the zero address
	Val    int    `json:"val,omitempty"`    // validator 0..2, 3 = an address without a validator record, 4 = not bech32, -1 = ""
	Dst    int    `json:"dst,omitempty"`    // redelegation(s): destination, same encoding
	Status string `json:"status,omitempty"` // validators
	Off    uint64 `json:"off,omitempty"`
	Lim    uint64 `json:"lim,omitempty"`
	Count  bool   `json:"count,omitempty"`
	Rev    bool   `json:"rev,omitempty"`
	Pages  int    `json:"pages,omitempty"` // follow the next key for up to this many further pages
}

type sqInput struct {
	Script []ssOp    `json:"script"`
	Q      []sqQuery `json:"q,omitempty"`    // explicit questions
	Only   bool      `json:"only,omitempty"` // ask only Q (otherwise: everything, then Q)
	Query  bool      `json:"query"`          // always true: marks a line of this driver
}

func (q sqQuery) String() string {
	b, _ := json.Marshal(q)
	return string(b)
}

// ---------------------------------------------------------------- addresses
func (e *ssEnv) sqWho(w int) common.Address {
	switch {
	case w >= 0 && w < ssNAct:
		return common.BytesToAddress(e.acc[w])
	case w == sqStranger:
		return common.HexToAddress("0x5717a16e7000000000000000000000000000dead")
	}
	return common.Address{}
}

func (e *ssEnv) sqBech(w int) string {
	if w == sqZeroAddr {
		return ""
	}
	return sdk.AccAddress(e.sqWho(w).Bytes()).String()
}

func (e *ssEnv) sqVal(v int) string {
	switch {
	case v >= 0 && v < ssNVal:
		return e.valStr[v]
	case v == ssNoVal:
		return e.noV.String()
	case v == sqBadVal:
		return "haqqvaloper1notbech32"
	}
	return ""
}

// ---------------------------------------------------------------- the two routes
// native: the gRPC query service of the application, as a client reaches it
func (e *ssEnv) sqGRPC(path string, req proto.Message, res proto.Message) (err error) {
	defer func() {
		if r := recover(); r != nil {
			err = fmt.Errorf("panic: %v", r)
		}
	}()
	h := e.App.GRPCQueryRouter().Route(path)
	if h == nil {
		return fmt.Errorf("no gRPC query route %s", path)
	}
	bz, err := proto.Marshal(req)
	if err != nil {
		return err
	}
	cctx, _ := e.Ctx.CacheContext()
	out, err := h(cctx, abci.RequestQuery{Path: path, Data: bz})
	if err != nil {
		return err
	}
	return proto.Unmarshal(out.Value, res)
}

func sqNotFound(err error) bool {
	if err == nil {
		return false
	}
	if s, ok := status.FromError(err); ok && s.Code() == codes.NotFound {
		return true
	}
	m := err.Error()
	return strings.Contains(m, "not found") || strings.Contains(m, "no redelegation found")
}

func sqErrKind(err error) string {
	switch {
	case err == nil:
		return "answered"
	case sqNotFound(err):
		return "not-found"
	}
	return "native-error"
}

// precompile: an Ethereum call from O, decoded by the method's ABI outputs
func (e *ssEnv) sqEth(method string, args ...interface{}) (got []interface{}, err error) {
	defer func() {
		// a panic inside a precompile that is not out-of-gas is re-thrown (HandleGasError); on a node baseapp's runTx
		// recovers it and the transaction fails
		if r := recover(); r != nil {
			got, err = nil, fmt.Errorf("panic: %v", r)
		}
	}()
	data, err := e.sABI.Pack(method, args...)
	if err != nil {
		return nil, fmt.Errorf("pack: %w", err)
	}
	ev := &evmEnv{Env: e.Env}
	ret, err := ev.ethCall(common.BytesToAddress(e.acc[ssO]), evmAddr[aPS], data)
	if err != nil {
		return nil, err
	}
	out, err := e.sABI.Methods[method].Outputs.Unpack(ret)
	if err != nil {
		return nil, fmt.Errorf("cannot unpack the answer: %w", err)
	}
	got = []interface{}{}
	for _, o := range out {
		got = append(got, sqCanon(reflect.ValueOf(o)))
	}
	return got, nil
}

// sqCanon: tuples and lists become []interface{}, every number its decimal string, bytes hex
func sqCanon(v reflect.Value) interface{} {
	if !v.IsValid() {
		return nil
	}
	switch v.Kind() {
	case reflect.Ptr:
		if bi, ok := v.Interface().(*big.Int); ok {
			if bi == nil {
				return "0"
			}
			return bi.String()
		}
		if v.IsNil() {
			return nil
		}
		return sqCanon(v.Elem())
	case reflect.Interface:
		return sqCanon(v.Elem())
	case reflect.Struct:
		out := []interface{}{}
		for i := 0; i < v.NumField(); i++ {
			out = append(out, sqCanon(v.Field(i)))
		}
		return out
	case reflect.Slice, reflect.Array:
		if v.Type().Elem().Kind() == reflect.Uint8 {
			b := make([]byte, v.Len())
			for i := range b {
				b[i] = byte(v.Index(i).Uint())
			}
			return "0x" + hex.EncodeToString(b)
		}
		out := []interface{}{}
		for i := 0; i < v.Len(); i++ {
			out = append(out, sqCanon(v.Index(i)))
		}
		return out
	case reflect.Bool:
		return v.Bool()
	case reflect.String:
		return v.String()
	case reflect.Int, reflect.Int8, reflect.Int16, reflect.Int32, reflect.Int64:
		return strconv.FormatInt(v.Int(), 10)
	case reflect.Uint, reflect.Uint8, reflect.Uint16, reflect.Uint32, reflect.Uint64:
		return strconv.FormatUint(v.Uint(), 10)
	}
	return fmt.Sprint(v.Interface())
}

// sqDiff: the first field in which the precompile's answer differs from the native one ("" = equal)
func sqDiff(path string, t abi.Type, got, want interface{}) string {
	switch t.T {
	case abi.TupleTy:
		g, ok1 := got.([]interface{})
		w, ok2 := want.([]interface{})
		if !ok1 || !ok2 || len(g) != len(t.TupleElems) || len(w) != len(t.TupleElems) {
			return fmt.Sprintf("%s: precompile %v, native %v", path, got, want)
		}
		for i, el := range t.TupleElems {
			if d := sqDiff(path+"."+t.TupleRawNames[i], *el, g[i], w[i]); d != "" {
				return d
			}
		}
		return ""
	case abi.SliceTy, abi.ArrayTy:
		g, ok1 := got.([]interface{})
		w, ok2 := want.([]interface{})
		if !ok1 || !ok2 {
			return fmt.Sprintf("%s: precompile %v, native %v", path, got, want)
		}
		if len(g) != len(w) {
			return fmt.Sprintf("%s: precompile reports %d entries, native %d", path, len(g), len(w))
		}
		for i := range g {
			if d := sqDiff(fmt.Sprintf("%s[%d]", path, i), *t.Elem, g[i], w[i]); d != "" {
				return d
			}
		}
		return ""
	}
	if fmt.Sprint(got) != fmt.Sprint(want) {
		return fmt.Sprintf("%s: precompile %v, native %v", path, got, want)
	}
	return ""
}

func (e *ssEnv) sqDiffOutputs(method string, got, want []interface{}) string {
	outs := e.sABI.Methods[method].Outputs
	if len(got) != len(outs) || len(want) != len(outs) {
		return fmt.Sprintf("precompile %v, native %v", got, want)
	}
	for i, a := range outs {
		if d := sqDiff(a.Name, a.Type, got[i], want[i]); d != "" {
			return d
		}
	}
	return ""
}

// ---------------------------------------------------------------- native answers in the shape of the precompile's outputs
func sqI(x int64) string { return strconv.FormatInt(x, 10) }

func (e *ssEnv) sqValInfo(v stakingtypes.Validator) []interface{} {
	pk := ""
	if v.ConsensusPubkey != nil {
		var p cryptotypes.PubKey
		if err := e.App.InterfaceRegistry().UnpackAny(v.ConsensusPubkey, &p); err == nil && p != nil {
			pk = base64.StdEncoding.EncodeToString(p.Bytes()) // the key itself, as the native answer's JSON shows it
		} else {
			pk = v.ConsensusPubkey.String()
		}
	}
	return []interface{}{v.OperatorAddress, pk, v.Jailed, sqI(int64(v.Status)), v.Tokens.String(), v.DelegatorShares.BigInt().String(),
		v.Description.Details, sqI(v.UnbondingHeight), sqI(v.UnbondingTime.Unix()), v.Commission.Rate.BigInt().String(), v.MinSelfDelegation.String()}
}

func sqRedEntry(en stakingtypes.RedelegationEntry) []interface{} {
	return []interface{}{sqI(en.CreationHeight), sqI(en.CompletionTime.Unix()), en.InitialBalance.String(), en.SharesDst.BigInt().String()}
}

func sqRed(r stakingtypes.Redelegation) []interface{} {
	ents := []interface{}{}
	for _, en := range r.Entries {
		ents = append(ents, sqRedEntry(en))
	}
	return []interface{}{r.DelegatorAddress, r.ValidatorSrcAddress, r.ValidatorDstAddress, ents}
}

func sqPage(p *query.PageResponse) []interface{} {
	if p == nil {
		return []interface{}{"0x", "0"}
	}
	return []interface{}{"0x" + hex.EncodeToString(p.NextKey), strconv.FormatUint(p.Total, 10)}
}

func sqIsList(x interface{}, n int) bool {
	l, ok := x.([]interface{})
	return ok && len(l) == n
}

// ---------------------------------------------------------------- one question
type sqAnswer struct {
	Q      string      `json:"q"`
	Eth    interface{} `json:"precompile,omitempty"`
	EthErr string      `json:"precompile_error,omitempty"`
	Nat    interface{} `json:"native,omitempty"`
	NatErr string      `json:"native_error,omitempty"`
}

type sqRun struct {
	e     *ssEnv
	tags  map[string]int
	dqs   []string
	found int
}

func (r *sqRun) tag(t string) { r.tags[t]++ }

// judge: the rule of the oracle.  empty(got) says whether a successful answer is the empty one.
func (r *sqRun) judge(q sqQuery, method string, got []interface{}, ethErr error, want []interface{}, natErr error, empty func([]interface{}) bool) (string, sqAnswer) {
	a := sqAnswer{Q: q.String(), Eth: got, Nat: want}
	if ethErr != nil {
		a.EthErr = ethErr.Error()
	}
	if natErr != nil {
		a.NatErr = natErr.Error()
	}
	kind := sqErrKind(natErr)
	r.tag("q:" + q.M + ":" + kind)
	switch kind {
	case "answered":
		r.found++
		if ethErr != nil {
			return fmt.Sprintf("%s: the native query answers %v, the precompile call fails: %v", q, want, ethErr), a
		}
		if d := r.e.sqDiffOutputs(method, got, want); d != "" {
			return fmt.Sprintf("%s: %s", q, d), a
		}
	case "not-found":
		if ethErr == nil && !empty(got) {
			return fmt.Sprintf("%s: the native query finds nothing (%v), the precompile reports %v", q, natErr, got), a
		}
	}
	return "", a
}

func (e *ssEnv) sqPageReq(q sqQuery, key []byte) query.PageRequest {
	p := query.PageRequest{Key: key, Offset: q.Off, Limit: q.Lim, CountTotal: q.Count, Reverse: q.Rev}
	if len(key) > 0 {
		p.Offset = 0
	}
	return p
}

func (r *sqRun) ask(q sqQuery) (string, sqAnswer) {
	e := r.e
	who, bech := e.sqWho(q.Who), e.sqBech(q.Who)
	vs := e.sqVal(q.Val)
	switch q.M {
	case "delegation":
		got, ethErr := e.sqEth("delegation", who, vs)
		var res stakingtypes.QueryDelegationResponse
		natErr := e.sqGRPC("/cosmos.staking.v1beta1.Query/Delegation", &stakingtypes.QueryDelegationRequest{DelegatorAddr: bech, ValidatorAddr: vs}, &res)
		var want []interface{}
		if natErr == nil && res.DelegationResponse != nil {
			d := res.DelegationResponse
			want = []interface{}{d.Delegation.Shares.BigInt().String(), []interface{}{d.Balance.Denom, d.Balance.Amount.String()}}
			if d.Delegation.DelegatorAddress != bech || d.Delegation.ValidatorAddress != vs {
				natErr = fmt.Errorf("the native query answered about another delegation")
			}
		}
		msg, a := r.judge(q, "delegation", got, ethErr, want, natErr, func(g []interface{}) bool {
			return len(g) == 2 && g[0] == "0" && sqIsList(g[1], 2) && g[1].([]interface{})[1] == "0"
		})
		r.delegationFacts(q, got, ethErr, want, natErr)
		return msg, a
	case "unbonding":
		got, ethErr := e.sqEth("unbondingDelegation", who, vs)
		var res stakingtypes.QueryUnbondingDelegationResponse
		natErr := e.sqGRPC("/cosmos.staking.v1beta1.Query/UnbondingDelegation", &stakingtypes.QueryUnbondingDelegationRequest{DelegatorAddr: bech, ValidatorAddr: vs}, &res)
		var want []interface{}
		if natErr == nil {
			ents := []interface{}{}
			for _, en := range res.Unbond.Entries {
				ents = append(ents, []interface{}{sqI(en.CreationHeight), sqI(en.CompletionTime.Unix()), en.InitialBalance.String(), en.Balance.String(),
					strconv.FormatUint(en.UnbondingId, 10), sqI(en.UnbondingOnHoldRefCount)})
			}
			want = []interface{}{[]interface{}{res.Unbond.DelegatorAddress, res.Unbond.ValidatorAddress, ents}}
			r.tag(fmt.Sprintf("unbonding:entries=%d", len(ents)))
		}
		return r.judge(q, "unbondingDelegation", got, ethErr, want, natErr, func(g []interface{}) bool {
			return len(g) == 1 && sqIsList(g[0], 3) && sqIsList(g[0].([]interface{})[2], 0)
		})
	case "validator":
		got, ethErr := e.sqEth("validator", vs)
		var res stakingtypes.QueryValidatorResponse
		natErr := e.sqGRPC("/cosmos.staking.v1beta1.Query/Validator", &stakingtypes.QueryValidatorRequest{ValidatorAddr: vs}, &res)
		var want []interface{}
		if natErr == nil {
			want = []interface{}{e.sqValInfo(res.Validator)}
			r.validatorFacts(res.Validator)
		}
		return r.judge(q, "validator", got, ethErr, want, natErr, func(g []interface{}) bool {
			if len(g) != 1 || !sqIsList(g[0], 11) {
				return false
			}
			v := g[0].([]interface{})
			return v[0] == "" && v[4] == "0" && v[5] == "0"
		})
	case "validators":
		var key []byte
		for page := 0; ; page++ {
			preq := e.sqPageReq(q, key)
			got, ethErr := e.sqEth("validators", q.Status, preq)
			var res stakingtypes.QueryValidatorsResponse
			natErr := e.sqGRPC("/cosmos.staking.v1beta1.Query/Validators", &stakingtypes.QueryValidatorsRequest{Status: q.Status, Pagination: &preq}, &res)
			var want []interface{}
			if natErr == nil {
				vals := []interface{}{}
				for _, v := range res.Validators {
					vals = append(vals, e.sqValInfo(v))
				}
				want = []interface{}{vals, sqPage(res.Pagination)}
				r.tag(fmt.Sprintf("validators:listed=%d", len(vals)))
			}
			msg, a := r.judge(q, "validators", got, ethErr, want, natErr, func(g []interface{}) bool { return len(g) == 2 && sqIsList(g[0], 0) })
			if page > 0 {
				r.tag("page:next-key-followed")
				a.Q = fmt.Sprintf("%s page %d (key %x)", a.Q, page+1, key)
				if msg != "" {
					msg = fmt.Sprintf("page %d (key %x): %s", page+1, key, msg)
				}
			}
			if msg != "" || natErr != nil || res.Pagination == nil || len(res.Pagination.NextKey) == 0 || page >= q.Pages {
				return msg, a
			}
			key = res.Pagination.NextKey
		}
	case "redelegation":
		vd := e.sqVal(q.Dst)
		got, ethErr := e.sqEth("redelegation", who, vs, vd)
		var res stakingtypes.QueryRedelegationsResponse
		natErr := e.sqGRPC("/cosmos.staking.v1beta1.Query/Redelegations", &stakingtypes.QueryRedelegationsRequest{DelegatorAddr: bech, SrcValidatorAddr: vs, DstValidatorAddr: vd}, &res)
		var want []interface{}
		if natErr == nil {
			if len(res.RedelegationResponses) != 1 {
				natErr = fmt.Errorf("the native query answered with %d redelegations", len(res.RedelegationResponses))
			} else {
				// the native answer names the redelegation and lists its entries beside it (RedelegationResponse.Entries[i].RedelegationEntry;
				// the inner Redelegation.Entries is left empty by NewRedelegationResponse)
				rr := res.RedelegationResponses[0]
				ents := []interface{}{}
				for _, en := range rr.Entries {
					ents = append(ents, sqRedEntry(en.RedelegationEntry))
				}
				want = []interface{}{[]interface{}{rr.Redelegation.DelegatorAddress, rr.Redelegation.ValidatorSrcAddress, rr.Redelegation.ValidatorDstAddress, ents}}
				r.tag(fmt.Sprintf("redelegation:entries=%d", len(ents)))
			}
		}
		return r.judge(q, "redelegation", got, ethErr, want, natErr, func(g []interface{}) bool {
			return len(g) == 1 && sqIsList(g[0], 4) && sqIsList(g[0].([]interface{})[3], 0)
		})
	case "redelegations":
		vd := e.sqVal(q.Dst)
		var key []byte
		for page := 0; ; page++ {
			preq := e.sqPageReq(q, key)
			got, ethErr := e.sqEth("redelegations", who, vs, vd, preq)
			var res stakingtypes.QueryRedelegationsResponse
			natErr := e.sqGRPC("/cosmos.staking.v1beta1.Query/Redelegations", &stakingtypes.QueryRedelegationsRequest{DelegatorAddr: bech, SrcValidatorAddr: vs, DstValidatorAddr: vd, Pagination: &preq}, &res)
			var want []interface{}
			if natErr == nil {
				list := []interface{}{}
				for _, rr := range res.RedelegationResponses {
					ents := []interface{}{}
					for _, en := range rr.Entries {
						ents = append(ents, []interface{}{sqRedEntry(en.RedelegationEntry), en.Balance.String()})
					}
					list = append(list, []interface{}{sqRed(rr.Redelegation), ents})
				}
				want = []interface{}{list, sqPage(res.Pagination)}
				r.tag(fmt.Sprintf("redelegations:listed=%d", len(list)))
			}
			msg, a := r.judge(q, "redelegations", got, ethErr, want, natErr, func(g []interface{}) bool { return len(g) == 2 && sqIsList(g[0], 0) })
			if page > 0 {
				r.tag("page:next-key-followed")
				a.Q = fmt.Sprintf("%s page %d (key %x)", a.Q, page+1, key)
				if msg != "" {
					msg = fmt.Sprintf("page %d (key %x): %s", page+1, key, msg)
				}
			}
			if msg != "" || natErr != nil || res.Pagination == nil || len(res.Pagination.NextKey) == 0 || page >= q.Pages {
				return msg, a
			}
			key = res.Pagination.NextKey
		}
	}
	return "unknown question " + q.String(), sqAnswer{Q: q.String()}
}

// validatorFacts: distribution tags about a validator that was reported
func (r *sqRun) validatorFacts(v stakingtypes.Validator) {
	st := []string{"unspecified", "unbonded", "unbonding", "bonded"}[int(v.Status)%4]
	r.tag("validator:" + st)
	if v.Jailed {
		r.tag("validator:jailed")
	}
	tk, sh := v.Tokens.BigInt(), v.DelegatorShares.BigInt()
	switch {
	case tk.Sign() == 0 && sh.Sign() == 0:
		r.tag("validator:emptied")
	case tk.Sign() == 0:
		r.tag("validator:tokens-zero-shares-positive")
	case new(big.Int).Mul(tk, big.NewInt(1e18)).Cmp(sh) != 0:
		r.tag("validator:rate-not-one")
	}
}

// delegationFacts: the Coq term of a delegation question and the distribution tags that matter to it
// (is the delegation's worth a whole number of tokens? on which side of one half is the fraction?)
func (r *sqRun) delegationFacts(q sqQuery, got []interface{}, ethErr error, want []interface{}, natErr error) {
	e := r.e
	if q.Val < 0 || q.Val > ssNoVal || q.Who < 0 {
		return
	}
	va := e.valAddr(q.Val)
	del := sdk.AccAddress(e.sqWho(q.Who).Bytes())
	ov, od := "None", "None"
	val, vfound := e.App.StakingKeeper.GetValidator(e.Ctx, va)
	if vfound {
		ov = fmt.Sprintf("(Some (mk_val %s %s %s %s %s))", coqZ(val.Tokens.BigInt()), coqZ(val.DelegatorShares.BigInt()), coqN(int(val.Status)), coqBool(val.Jailed), coqZ(val.MinSelfDelegation.BigInt()))
	}
	d, dfound := e.App.StakingKeeper.GetDelegation(e.Ctx, del, va)
	if dfound {
		od = "(Some " + coqZ(d.Shares.BigInt()) + ")"
	}
	if dfound && vfound && val.DelegatorShares.IsPositive() {
		n := new(big.Int).Mul(d.Shares.BigInt(), val.Tokens.BigInt())
		rem := new(big.Int).Mod(n, val.DelegatorShares.BigInt())
		dels := len(e.App.StakingKeeper.GetValidatorDelegations(e.Ctx, va))
		switch {
		case rem.Sign() == 0:
			r.tag("delegation:worth-whole-tokens")
		case new(big.Int).Lsh(rem, 1).Cmp(val.DelegatorShares.BigInt()) >= 0:
			r.tag("delegation:worth-fraction>=1/2")
		default:
			r.tag("delegation:worth-fraction<1/2")
		}
		if dels >= 2 {
			r.tag("delegation:validator-has-several-delegators")
		}
		if d.Shares.BigInt().Cmp(new(big.Int).Mul(new(big.Int).Quo(d.Shares.BigInt(), big.NewInt(1e18)), big.NewInt(1e18))) != 0 {
			r.tag("delegation:fractional-shares")
		}
	}
	if !dfound && q.Who != sqStranger {
		return // not-found goes to Coq once per validator (the stranger's questions); the oracle judges all of them
	}
	pre := "None"
	if ethErr == nil && len(got) == 2 && sqIsList(got[1], 2) {
		pre = fmt.Sprintf("(Some (%s, %s))", coqZ(bigOf(got[0].(string))), coqZ(bigOf(got[1].([]interface{})[1].(string))))
	}
	nat := "QError"
	switch {
	case natErr == nil && len(want) == 2:
		nat = fmt.Sprintf("(QOk %s %s)", coqZ(bigOf(want[0].(string))), coqZ(bigOf(want[1].([]interface{})[1].(string))))
	case sqNotFound(natErr):
		nat = "QNotFound"
	}
	r.dqs = append(r.dqs, fmt.Sprintf("(%s, %s, %s, %s)", ov, od, pre, nat))
}

// ---------------------------------------------------------------- everything there is to ask
func sqAll() []sqQuery {
	qs := []sqQuery{}
	for w := 0; w <= sqStranger; w++ {
		for v := 0; v <= ssNoVal; v++ {
			qs = append(qs, sqQuery{M: "delegation", Who: w, Val: v}, sqQuery{M: "unbonding", Who: w, Val: v})
		}
	}
	qs = append(qs, sqQuery{M: "delegation", Who: ssO, Val: sqBadVal}, sqQuery{M: "unbonding", Who: ssO, Val: sqBadVal})
	for v := 0; v <= sqBadVal; v++ {
		qs = append(qs, sqQuery{M: "validator", Val: v})
	}
	bonded, unbonding, unbonded := stakingtypes.Bonded.String(), stakingtypes.Unbonding.String(), stakingtypes.Unbonded.String()
	qs = append(qs,
		sqQuery{M: "validators"}, sqQuery{M: "validators", Status: bonded}, sqQuery{M: "validators", Status: unbonding}, sqQuery{M: "validators", Status: unbonded},
		sqQuery{M: "validators", Lim: 1, Count: true, Pages: 4}, sqQuery{M: "validators", Lim: 2, Off: 1, Rev: true, Count: true},
		sqQuery{M: "validators", Status: bonded, Lim: 1, Rev: true, Pages: 3}, sqQuery{M: "validators", Status: "BOND_STATUS_NONE"})
	for w := 0; w < ssNAct; w++ {
		for s := 0; s < ssNVal; s++ {
			for d := 0; d < ssNVal; d++ {
				if s != d {
					qs = append(qs, sqQuery{M: "redelegation", Who: w, Val: s, Dst: d}, sqQuery{M: "redelegations", Who: w, Val: s, Dst: d})
				}
			}
		}
		qs = append(qs, sqQuery{M: "redelegations", Who: w, Val: sqNoFilter, Dst: sqNoFilter},
			sqQuery{M: "redelegations", Who: w, Val: sqNoFilter, Dst: sqNoFilter, Lim: 1, Count: true, Pages: 8},
			sqQuery{M: "redelegations", Who: w, Val: w % ssNVal, Dst: sqNoFilter, Lim: 2, Rev: true, Count: true},
			sqQuery{M: "redelegations", Who: w, Val: sqNoFilter, Dst: (w + 1) % ssNVal})
	}
	qs = append(qs, sqQuery{M: "redelegation", Who: ssO, Val: 0, Dst: ssNoVal}, sqQuery{M: "redelegation", Who: ssO, Val: ssNoVal, Dst: 0},
		sqQuery{M: "redelegation", Who: sqStranger, Val: 0, Dst: 1}, sqQuery{M: "redelegation", Who: ssO, Val: 1, Dst: 1},
		sqQuery{M: "redelegations", Who: sqStranger, Val: sqNoFilter, Dst: sqNoFilter}, sqQuery{M: "redelegations", Who: ssO, Val: sqBadVal, Dst: 0})
	for s := 0; s <= ssNoVal; s++ {
		qs = append(qs, sqQuery{M: "redelegations", Who: sqZeroAddr, Val: s, Dst: sqNoFilter},
			sqQuery{M: "redelegations", Who: sqZeroAddr, Val: s, Dst: sqNoFilter, Lim: 1, Count: true, Pages: 8})
	}
	return qs
}

// ---------------------------------------------------------------- one case
type sqObs struct {
	ScriptErrs []string   `json:"script_errors,omitempty"`
	Asked      int        `json:"asked"`
	Answered   int        `json:"answered_by_native"`
	Failing    []sqAnswer `json:"failing,omitempty"`
}

func sqRunCase(id string, in sqInput) Case {
	in.Query = true
	c := Case{ID: id, Kind: "stake-query", OracleOK: true}
	finish := func() Case {
		kb, _ := json.Marshal(in)
		c.Input = in
		c.Key = string(kb)
		return c
	}
	base := ssBaseEnv()
	e := base.fork()
	obs := sqObs{}
	for i, op := range in.Script {
		if err := e.apply(op); err != nil {
			obs.ScriptErrs = append(obs.ScriptErrs, fmt.Sprintf("%d:%s:%s", i, op.Op, ssErrClass(err.Error())))
		}
	}
	if !e.setProposer() {
		// no bonded validator: the EVM still needs a proposer with a validator record (coinbase)
		hdr := e.Ctx.BlockHeader()
		hdr.ProposerAddress = e.cons[0]
		e.Ctx = e.Ctx.WithBlockHeader(hdr)
	}
	qs := in.Q
	if !in.Only {
		qs = append(sqAll(), in.Q...)
	}
	r := &sqRun{e: e, tags: map[string]int{}}
	msgs := []string{}
	var firstBad *sqQuery
	for i := range qs {
		msg, a := r.ask(qs[i])
		if msg != "" {
			msgs = append(msgs, msg)
			if len(obs.Failing) < 6 {
				obs.Failing = append(obs.Failing, a)
			}
			if firstBad == nil {
				firstBad = &qs[i]
			}
		}
	}
	obs.Asked, obs.Answered = len(qs), r.found
	c.Obs = obs
	if len(obs.ScriptErrs) > 0 {
		r.tag("script-op-failed")
	}
	for t := range r.tags {
		c.Tags = append(c.Tags, t)
	}
	sort.Strings(c.Tags)
	c.Nontrivial = r.found > 0
	if len(r.dqs) > 0 {
		c.Coq = "[" + strings.Join(r.dqs, ";\n    ") + "]"
		c.CoqList = "squery"
	}
	if len(msgs) > 0 {
		c.OracleOK = false
		n := len(msgs)
		if n > 4 {
			msgs = msgs[:4]
		}
		c.OracleMsg = fmt.Sprintf("%d of %d questions are answered differently by the staking precompile and by the native query: %s", n, len(qs), strings.Join(msgs, " | "))
		if !in.Only && firstBad != nil {
			// report the one question: the same script with only it fails the same way (questions do not change state)
			in.Only, in.Q = true, []sqQuery{*firstBad}
		}
	}
	return finish()
}

// ---------------------------------------------------------------- generator
// amounts whose worth after a slash is rarely a whole number
func sqOddAmt(r *Rng) string {
	switch r.Intn(8) {
	case 0:
		return fmt.Sprint(1 + r.Intn(999))
	case 1:
		return new(big.Int).Add(ssE15(1000), big.NewInt(int64(1+r.Intn(50)))).String() // 10^18 + a little
	case 2:
		return ssE15(int64(1 + r.Intn(3000))).String()
	case 3:
		return new(big.Int).Add(r.Below(ssE15(3000)), big.NewInt(1)).String()
	}
	return new(big.Int).Add(ssE15(int64(1+r.Intn(3000))), big.NewInt(int64(1+r.Intn(1_000_000_000)))).String()
}

func sqSlashBp(r *Rng) int {
	switch r.Intn(6) {
	case 0:
		return []int{1, 100, 500, 1000, 3333, 5000, 9999}[r.Intn(7)]
	case 1:
		return 10000
	}
	return 1 + r.Intn(9999)
}

func sqGen(r *Rng) sqInput {
	in := sqInput{Query: true}
	add := func(ops ...ssOp) { in.Script = append(in.Script, ops...) }
	next := func() { add(ssOp{Op: "advance", Dt: 5, Dh: 1}) }
	if r.Chance(35) {
		// the unusual states of the stakestates driver (emptied, jailed, unbonding, full entry lists, matured entries, ...)
		in.Script = ssGen(r).Script
	} else {
		// several delegators with odd amounts, validators slashed by assorted fractions (several times), with
		// unbondings and redelegations in flight, commission and rewards, jailed / unbonding / unbonded validators
		who := []int{ssO, ssP, ssOp1, ssOp2, ssW}
		add(ssOp{Op: "fund", Who: ssW, Amt: ssE15(int64(5000 + r.Intn(5000))).String()})
		nv := 1 + r.Intn(ssNVal)
		v0 := r.Intn(ssNVal)
		type pair struct{ w, v int }
		held := []pair{{ssOp1, 1}, {ssOp2, 2}} // the operators' self-delegations
		deleg := func(w, v int) {
			add(ssOp{Op: "delegate", Who: w, Val: v, Amt: sqOddAmt(r)})
			held = append(held, pair{w, v})
		}
		// part of an existing delegation leaves (unbonding) or moves (redelegation): a small odd amount, sometimes all of it
		part := func() string {
			switch r.Intn(6) {
			case 0:
				return "all"
			case 1:
				return sqOddAmt(r)
			}
			return fmt.Sprint(1 + r.Intn(1_000_000_000))
		}
		move := func() {
			p := held[r.Intn(len(held))]
			if r.Bool() {
				add(ssOp{Op: "undelegate", Who: p.w, Val: p.v, Amt: part()})
			} else {
				d := (p.v + 1 + r.Intn(2)) % ssNVal
				add(ssOp{Op: "redelegate", Who: p.w, Val: p.v, Dst: d, Amt: part()})
				held = append(held, pair{p.w, d})
			}
		}
		for i, n := 0, 2+r.Intn(5); i < n; i++ {
			deleg(who[r.Intn(len(who))], (v0+r.Intn(nv))%ssNVal)
			if r.Chance(30) {
				next()
			}
		}
		next()
		for i, n := 0, 1+r.Intn(3); i < n; i++ {
			v := (v0 + r.Intn(nv)) % ssNVal
			switch r.Intn(6) {
			case 0, 1:
				move()
			case 2:
				add(ssOp{Op: "reward", Val: v, Amt: sqOddAmt(r)})
			case 3:
				deleg(who[r.Intn(len(who))], v)
			}
			if r.Chance(50) {
				next()
			}
			add(ssOp{Op: "slash", Val: v, Bp: sqSlashBp(r), Back: int64(r.Intn(3))})
		}
		if r.Chance(35) {
			v := (v0 + r.Intn(nv)) % ssNVal
			add(ssOp{Op: "jail", Val: v})
			if r.Chance(70) {
				add(ssOp{Op: "endblock"})
				if r.Chance(40) {
					add(ssOp{Op: "advance", Dt: ssUnbondSecs, Dh: int64(1 + r.Intn(9))}, ssOp{Op: "endblock"})
				}
			}
		}
		for i, n := 0, r.Intn(5); i < n; i++ {
			switch r.Intn(4) {
			case 0, 1:
				move()
			case 2:
				deleg(who[r.Intn(len(who))], r.Intn(ssNVal))
			default:
				next()
			}
		}
	}
	for r.Chance(25) && len(in.Script) < 24 {
		add(ssRandOp(r, []int{ssO, ssP, ssOp1, ssOp2}[r.Intn(4)]))
	}
	// a few questions of its own: random paging of the two list methods
	statuses := []string{"", stakingtypes.Bonded.String(), stakingtypes.Unbonding.String(), stakingtypes.Unbonded.String()}
	for i, n := 0, r.Intn(3); i < n; i++ {
		q := sqQuery{M: "validators", Status: statuses[r.Intn(4)], Lim: uint64(r.Intn(4)), Off: uint64(r.Intn(3)), Count: r.Bool(), Rev: r.Bool(), Pages: r.Intn(4)}
		if r.Bool() {
			q = sqQuery{M: "redelegations", Who: r.Intn(ssNAct), Val: sqNoFilter, Dst: sqNoFilter, Lim: uint64(r.Intn(4)), Off: uint64(r.Intn(3)), Count: r.Bool(), Rev: r.Bool(), Pages: r.Intn(9)}
			if r.Chance(40) {
				q.Who, q.Val = sqZeroAddr, r.Intn(ssNVal)
			}
		}
		in.Q = append(in.Q, q)
	}
	return in
}

func sqDriver(cfg Config, out *Out) error {
	if cfg.Replay != "" {
		i := 0
		return readReplayInputs(cfg.Replay, func(raw json.RawMessage) error {
			var in sqInput
			if err := json.Unmarshal(raw, &in); err != nil || !in.Query {
				return nil // a replay line of another driver
			}
			out.Emit(sqRunCase(fmt.Sprintf("replay-%d", i), in))
			i++
			return nil
		})
	}
	r := NewRng(NewRng(cfg.Seed).U64() ^ 0x5351)
	for i := 0; i < cfg.N; i++ {
		out.Emit(sqRunCase(fmt.Sprintf("sq%d-%d", cfg.Seed, i), sqGen(r.Fork())))
	}
	return nil
}
