package main

// Driver "locked" (property C08): a clawback vesting account (created by
// MsgCreateClawbackVestingAccount, or an existing EthAccount converted by
// MsgConvertIntoVestingAccount) with random lockup / vesting schedules in two
// denominations, then random histories at chosen block times mixing spend
// attempts at spendable-1 / spendable / spendable+1 over every debit path that
// can be driven for real, delegations over the three delegation paths,
// undelegation + completion, slashing, clawback, new grants (merge) and
// credits, and the ACCOUNT-TYPE operations: MsgConvertVestingAccount (vesting ->
// plain EthAccount) at any point, MsgConvertIntoVestingAccount (plain -> vesting,
// or a merge), MsgCreateClawbackVestingAccount{Merge}, MsgUpdateVestingFunder,
// MsgClawback by the current / a stale funder, and MsgConvertIntoVestingAccount{Stake}
// (the auto-stake of the vested part of the grant: onto a new address, a plain account
// with or without delegations, or merged into a clawback account that has spent,
// delegated or unbonded what its earlier grants vested), and VALIDATOR CREATION: the self-bond of
// MsgCreateValidator is a delegation of the account's coins, requested over the same three routes as an
// ordinary delegation (the message through the router, the message inside authz MsgExec under a generic
// grant, the staking precompile's createValidator in an Ethereum transaction signed by the account), at
// delegatable-1 / delegatable / delegatable+1 / the whole balance, before / inside / after the schedules,
// on accounts that delegated or spent part of what has vested; afterwards the self-bond is undelegated,
// matures, is clawed back around.  After every transaction: bank
// balance vs the locked amount computed here from the stored schedule by an
// independent big.Int reference.  A successful MsgConvertVestingAccount must find
// the schedule done (nothing locked up, nothing unvested, whatever is delegated);
// if it does not, the discarded schedule is followed for the rest of the history
// as if the account had not been converted ("obligation") and every later
// successful transaction is checked against it as well.

import (
	"encoding/json"
	"fmt"
	"math/big"
	"sort"
	"strings"
	"time"

	sdkmath "cosmossdk.io/math"
	"github.com/cosmos/cosmos-sdk/crypto/keys/ed25519"
	sdk "github.com/cosmos/cosmos-sdk/types"
	sdkvesting "github.com/cosmos/cosmos-sdk/x/auth/vesting/types"
	"github.com/cosmos/cosmos-sdk/x/authz"
	banktypes "github.com/cosmos/cosmos-sdk/x/bank/types"
	govv1 "github.com/cosmos/cosmos-sdk/x/gov/types/v1"
	stakingtypes "github.com/cosmos/cosmos-sdk/x/staking/types"
	"github.com/ethereum/go-ethereum/common"
	ethtypes "github.com/ethereum/go-ethereum/core/types"
	"github.com/ethereum/go-ethereum/crypto"

	cosmosante "github.com/haqq-network/haqq/app/ante/cosmos"
	evmante "github.com/haqq-network/haqq/app/ante/evm"
	stakingprecompile "github.com/haqq-network/haqq/precompiles/staking"
	"github.com/haqq-network/haqq/testutil"
	erc20types "github.com/haqq-network/haqq/x/erc20/types"
	"github.com/haqq-network/haqq/x/evm/statedb"
	evmtypes "github.com/haqq-network/haqq/x/evm/types"
	ucdaotypes "github.com/haqq-network/haqq/x/ucdao/types"
	vestingtypes "github.com/haqq-network/haqq/x/vesting/types"
)

func init() { register("locked", lockedDriver) }

var lkDenoms = [2]string{"aISLM", "utest"} // 0 = bond + EVM denomination

var (
	lkKeyV, _ = crypto.HexToECDSA("8a36c69d940a92fcea94b36d0f2928c7a0ee19a90073eda769693298dfa9603b")
	lkV       = crypto.PubkeyToAddress(lkKeyV.PublicKey)
	lkAccV    = sdk.AccAddress(lkV.Bytes())
	lkF       = addrN(40) // funder
	lkR       = addrN(41) // recipient of spends
	lkG       = addrN(42) // authz grantee
	lkR2      = addrN(43)
	lkF2      = addrN(44) // second funder (MsgUpdateVestingFunder, stale / foreign signer)
)

// funder identities in inputs and in the Coq term: "" / "F" = 0 (the creating funder), "F2" = 1
func lkFunder(who string) (sdk.AccAddress, int) {
	if who == "F2" {
		return lkF2, 1
	}
	return lkF, 0
}

type lkPeriod struct {
	Len int64     `json:"len"`
	Amt [2]string `json:"amt"`
}

type lkSched struct {
	Start   int64      `json:"start"` // seconds relative to the block time at creation
	Lockup  []lkPeriod `json:"lockup"`
	Vesting []lkPeriod `json:"vesting"`
}

type lkOp struct {
	Op    string   `json:"op"`
	D     int      `json:"d,omitempty"`     // denomination of a single-coin spend
	Mode  string   `json:"mode,omitempty"`  // sp-1 sp sp+1 half one abs | dg-1 dg dg+1 (delegations: relative to balance - unvested) | bal (delegations: the whole balance)
	Amt   string   `json:"amt,omitempty"`   // absolute amount (mode abs), or second-denomination amount
	DT    int      `json:"dt,omitempty"`    // seconds
	Frac  string   `json:"frac,omitempty"`  // slash fraction, 1e-18 units
	Sched *lkSched `json:"sched,omitempty"` // grant, into
	Who   string   `json:"who,omitempty"`   // signer of clawback / grant / into / updatefunder: "" = F, "F2"
	To    string   `json:"to,omitempty"`    // updatefunder: the new funder
	Merge bool     `json:"merge,omitempty"` // into: MsgConvertIntoVestingAccount{Merge}
	Stake bool     `json:"stake,omitempty"` // into: MsgConvertIntoVestingAccount{Stake}: the vested part of the grant is staked at once
	Own   bool     `json:"own,omitempty"`   // undelegate: from the account's own validator (the self-bond) instead of the genesis validator
}

type lkInput struct {
	Create   string    `json:"create"` // "create" | "convert" (an existing EthAccount) | "new" (MsgConvertIntoVestingAccount onto an address without account)
	Stake    bool      `json:"stake,omitempty"` // convert / new: MsgConvertIntoVestingAccount{Stake}
	Sched    lkSched   `json:"sched"`
	Extra    [2]string `json:"extra"`              // free coins on top of the grant
	PreDeleg string    `json:"predeleg,omitempty"` // convert: delegated before the conversion
	Erc20    bool      `json:"erc20,omitempty"`    // register utest as an ERC20 coin pair
	Ops      []lkOp    `json:"ops"`
}

// ---------------------------------------------------------------- environment
type lkEnv struct {
	*evmEnv
	propID uint64
	t0     time.Time
}

var lkBase *lkEnv

func lkBaseEnv() *lkEnv {
	if lkBase != nil {
		return lkBase
	}
	b := evmBaseEnv().fork()
	e := &lkEnv{evmEnv: b, t0: b.Ctx.BlockTime()}
	big1 := new(big.Int).Lsh(big.NewInt(1), 120)
	funds := sdk.NewCoins(sdk.NewCoin(lkDenoms[0], sdkmath.NewIntFromBigInt(big1)), sdk.NewCoin(lkDenoms[1], sdkmath.NewIntFromBigInt(big1)))
	must(testutil.FundAccount(e.Ctx, e.App.BankKeeper, lkF, funds))
	must(testutil.FundAccount(e.Ctx, e.App.BankKeeper, lkF2, funds))
	// short unbonding time so that undelegations complete inside a history
	sp := e.App.StakingKeeper.GetParams(e.Ctx)
	sp.UnbondingTime = 300 * time.Second
	must(e.App.StakingKeeper.SetParams(e.Ctx, sp))
	// the script contract C1
	codeHash := crypto.Keccak256Hash(scriptCode)
	e.App.EvmKeeper.SetCode(e.Ctx, codeHash.Bytes(), scriptCode)
	must(e.App.EvmKeeper.SetAccount(e.Ctx, evmAddr[aC1], statedb.Account{Nonce: 1, Balance: big.NewInt(0), CodeHash: codeHash.Bytes()}))
	// a proposal in its deposit period
	msg, err := govv1.NewMsgSubmitProposal(nil, sdk.NewCoins(sdk.NewInt64Coin(lkDenoms[0], 1)), lkF.String(), "m", "t", "s")
	must(err)
	res, err := e.runMsg(msg)
	must(err)
	var r govv1.MsgSubmitProposalResponse
	must(e.App.AppCodec().Unmarshal(res.MsgResponses[0].Value, &r))
	e.propID = r.ProposalId
	lkBase = e
	return e
}

func must(err error) {
	if err != nil {
		panic(err)
	}
}

func (b *lkEnv) fork() *lkEnv {
	return &lkEnv{evmEnv: b.evmEnv.fork(), propID: b.propID, t0: b.t0}
}

func (e *lkEnv) atomic(f func(ctx sdk.Context) error) (err error) {
	cctx, write := e.Ctx.CacheContext()
	defer func() {
		if r := recover(); r != nil {
			err = fmt.Errorf("panic: %v", r)
		}
	}()
	if err = f(cctx); err == nil {
		write()
	}
	return err
}

func lkCoin(d int, x *big.Int) sdk.Coin { return sdk.NewCoin(lkDenoms[d], sdkmath.NewIntFromBigInt(x)) }

func lkCoins2(x [2]*big.Int) sdk.Coins {
	cs := sdk.Coins{}
	for d := 0; d < 2; d++ {
		if x[d] != nil && x[d].Sign() != 0 {
			cs = append(cs, lkCoin(d, x[d]))
		}
	}
	return cs
}

func lkPeriods(ps []lkPeriod) sdkvesting.Periods {
	out := sdkvesting.Periods{}
	for _, p := range ps {
		out = append(out, sdkvesting.Period{Length: p.Len, Amount: lkCoins2([2]*big.Int{bigOf(p.Amt[0]), bigOf(p.Amt[1])})})
	}
	return out
}

func lkTotal(ps []lkPeriod) [2]*big.Int {
	t := [2]*big.Int{big.NewInt(0), big.NewInt(0)}
	for _, p := range ps {
		for d := 0; d < 2; d++ {
			t[d].Add(t[d], bigOf(p.Amt[d]))
		}
	}
	return t
}

func (e *lkEnv) vacc() *vestingtypes.ClawbackVestingAccount {
	acc := e.App.AccountKeeper.GetAccount(e.Ctx, lkAccV)
	va, _ := acc.(*vestingtypes.ClawbackVestingAccount)
	return va
}

// probeVacc runs msg on a throw-away copy of the state and returns the vesting account it leaves (nil when refused).
func (e *lkEnv) probeVacc(msg sdk.Msg) *vestingtypes.ClawbackVestingAccount {
	saved := e.Ctx
	defer func() { e.Ctx = saved }()
	e.Ctx, _ = saved.CacheContext()
	if _, err := e.runMsg(msg); err != nil {
		return nil
	}
	return e.vacc()
}

// ---------------------------------------------------------------- independent reference (the property's formula)
type lkRefPeriod struct {
	Len int64
	Amt [2]*big.Int
}

type lkRefAcc struct {
	Orig    [2]*big.Int
	Start   int64
	Lockup  []lkRefPeriod
	Vesting []lkRefPeriod
	Tracked [2]*big.Int // DelegatedFree + DelegatedVesting
}

func lkRefOf(va *vestingtypes.ClawbackVestingAccount) lkRefAcc {
	if va == nil { // a plain account: no schedule, nothing tracked
		return lkRefAcc{Orig: [2]*big.Int{big.NewInt(0), big.NewInt(0)}, Tracked: [2]*big.Int{big.NewInt(0), big.NewInt(0)}}
	}
	r := lkRefAcc{Start: va.StartTime.Unix()}
	conv := func(ps sdkvesting.Periods) []lkRefPeriod {
		out := []lkRefPeriod{}
		for _, p := range ps {
			out = append(out, lkRefPeriod{p.Length, [2]*big.Int{p.Amount.AmountOf(lkDenoms[0]).BigInt(), p.Amount.AmountOf(lkDenoms[1]).BigInt()}})
		}
		return out
	}
	r.Lockup, r.Vesting = conv(va.LockupPeriods), conv(va.VestingPeriods)
	for d := 0; d < 2; d++ {
		r.Orig[d] = va.OriginalVesting.AmountOf(lkDenoms[d]).BigInt()
		r.Tracked[d] = new(big.Int).Add(va.DelegatedFree.AmountOf(lkDenoms[d]).BigInt(), va.DelegatedVesting.AmountOf(lkDenoms[d]).BigInt())
	}
	return r
}

// step function: sum of the amounts of all events at or before t, capped by nothing
func lkRefEv(start int64, ps []lkRefPeriod, t int64, d int) *big.Int {
	sum := big.NewInt(0)
	at := start
	for _, p := range ps {
		at += p.Len
		if at <= t {
			sum.Add(sum, p.Amt[d])
		}
	}
	return sum
}

func bigMin(a, b *big.Int) *big.Int {
	if a.Cmp(b) < 0 {
		return a
	}
	return b
}
func bigMax(a, b *big.Int) *big.Int {
	if a.Cmp(b) > 0 {
		return a
	}
	return b
}

func (r *lkRefAcc) unvested(t int64, d int) *big.Int {
	return new(big.Int).Sub(r.Orig[d], lkRefEv(r.Start, r.Vesting, t, d))
}

// locked = max(original - unlockedVested - trackedDelegated, unvested)
func (r *lkRefAcc) locked(t int64, d int) *big.Int {
	v := lkRefEv(r.Start, r.Vesting, t, d)
	u := lkRefEv(r.Start, r.Lockup, t, d)
	uv := bigMin(u, v)
	a := new(big.Int).Sub(r.Orig[d], uv)
	a.Sub(a, r.Tracked[d])
	return bigMax(a, new(big.Int).Sub(r.Orig[d], v))
}

// what the lock-up SCHEDULE still locks at t, whatever is delegated: original - unlocked (GetLockedUpCoins)
func (r *lkRefAcc) lockedUp(t int64, d int) *big.Int {
	return new(big.Int).Sub(r.Orig[d], lkRefEv(r.Start, r.Lockup, t, d))
}

// the time from which the schedule locks nothing in any denomination (end of both schedules)
func (r *lkRefAcc) end() int64 {
	e := r.Start
	for _, ps := range [][]lkRefPeriod{r.Lockup, r.Vesting} {
		at := r.Start
		for _, p := range ps {
			at += p.Len
		}
		if at > e {
			e = at
		}
	}
	return e
}

func (r lkRefAcc) clone() lkRefAcc {
	c := r
	for d := 0; d < 2; d++ {
		c.Orig[d] = new(big.Int).Set(r.Orig[d])
		c.Tracked[d] = new(big.Int).Set(r.Tracked[d])
	}
	return c
}

// the obligation of a schedule that a conversion discarded while it still locked coins
type lkShadow struct {
	ref  lkRefAcc // Tracked keeps following the SDK rules (TrackDelegation / TrackUndelegation) as if not converted
	at   int64    // block time of the conversion
	step int
}

// ---------------------------------------------------------------- observation
type lkObs struct {
	OK      bool      `json:"ok"`
	Err     string    `json:"err,omitempty"`
	Bal     [2]string `json:"bal"`
	Locked  [2]string `json:"locked"`     // LockedCoins(now) of the stored account
	RefLock [2]string `json:"ref_locked"` // the reference
	DF      string    `json:"df"`
	DV      string    `json:"dv"`
	Deleg   string    `json:"deleg"`
	Unb     string    `json:"unb"`
	Vesting bool      `json:"vesting"` // still a clawback vesting account
}

type lkSnap struct {
	bal, locked [2]*big.Int
	df, dv      *big.Int
	deleg, unb  *big.Int
	delegVal    *big.Int // of deleg: delegated to the genesis validator
	delegOwn    *big.Int // of deleg: the self-bond on the account's own validator
	isVal       bool     // a validator with the account as operator exists
	va          *vestingtypes.ClawbackVestingAccount
	ref         lkRefAcc
	now         int64
	funder      int         // 0 = F, 1 = F2 (vesting account only)
	oblLocked   [2]*big.Int // locked by obligations of discarded schedules (0 unless a conversion went wrong)
	oblUnvested *big.Int
}

func (e *lkEnv) snap() lkSnap {
	s := lkSnap{now: e.Ctx.BlockTime().Unix()}
	s.va = e.vacc()
	for d := 0; d < 2; d++ {
		s.bal[d] = e.App.BankKeeper.GetBalance(e.Ctx, lkAccV, lkDenoms[d]).Amount.BigInt()
		s.locked[d] = big.NewInt(0)
	}
	s.df, s.dv = big.NewInt(0), big.NewInt(0)
	s.oblLocked = [2]*big.Int{big.NewInt(0), big.NewInt(0)}
	s.oblUnvested = big.NewInt(0)
	s.ref = lkRefOf(s.va)
	if s.va != nil {
		if s.va.FunderAddress == lkF2.String() {
			s.funder = 1
		}
		lc := s.va.LockedCoins(e.Ctx.BlockTime())
		for d := 0; d < 2; d++ {
			s.locked[d] = lc.AmountOf(lkDenoms[d]).BigInt()
		}
		s.df = s.va.DelegatedFree.AmountOf(lkDenoms[0]).BigInt()
		s.dv = s.va.DelegatedVesting.AmountOf(lkDenoms[0]).BigInt()
	}
	s.deleg = e.App.StakingKeeper.GetDelegatorBonded(e.Ctx, lkAccV).BigInt()
	s.delegVal, s.delegOwn = e.delegatedTo(e.valAddr), e.delegatedTo(sdk.ValAddress(lkAccV))
	_, s.isVal = e.App.StakingKeeper.GetValidator(e.Ctx, sdk.ValAddress(lkAccV))
	s.unb = e.App.StakingKeeper.GetDelegatorUnbonding(e.Ctx, lkAccV).BigInt()
	return s
}

// what the account's delegation to one validator is worth (as GetDelegatorBonded counts it)
func (e *lkEnv) delegatedTo(v sdk.ValAddress) *big.Int {
	del, found := e.App.StakingKeeper.GetDelegation(e.Ctx, lkAccV, v)
	if !found {
		return big.NewInt(0)
	}
	val, found := e.App.StakingKeeper.GetValidator(e.Ctx, v)
	if !found {
		return big.NewInt(0)
	}
	return val.TokensFromSharesTruncated(del.Shares).RoundInt().BigInt()
}

func (s *lkSnap) spendable(d int) *big.Int {
	x := new(big.Int).Sub(s.bal[d], s.ref.locked(s.now, d))
	x.Sub(x, s.oblLocked[d])
	if x.Sign() < 0 {
		return big.NewInt(0)
	}
	return x
}

func (s *lkSnap) delegatable() *big.Int {
	x := new(big.Int).Sub(s.bal[0], s.ref.unvested(s.now, 0))
	x.Sub(x, s.oblUnvested)
	if x.Sign() < 0 {
		return big.NewInt(0)
	}
	return x
}

func (s *lkSnap) obs(err error) lkObs {
	o := lkObs{OK: err == nil, DF: s.df.String(), DV: s.dv.String(), Deleg: s.deleg.String(), Unb: s.unb.String(), Vesting: s.va != nil}
	if err != nil {
		o.Err = err.Error()
		if len(o.Err) > 150 {
			o.Err = o.Err[:150]
		}
	}
	for d := 0; d < 2; d++ {
		o.Bal[d], o.Locked[d] = s.bal[d].String(), s.locked[d].String()
		o.RefLock[d] = s.ref.locked(s.now, d).String()
	}
	return o
}

// coqObs: the observation after a step; deleg / unb are passed explicitly (the harness' plain-arithmetic
// expectation for ordinary steps, the staking module's figures for the resync step).
func (s *lkSnap) coqObs(ok bool, deleg, unb *big.Int) string {
	return fmt.Sprintf("Some (mklkobs %s %s %s %s %s %s %s %s %s %s)", coqBool(ok), coqBool(s.va != nil), coqZ(s.bal[0]), coqZ(s.bal[1]), coqZ(s.locked[0]), coqZ(s.locked[1]),
		coqZ(s.df), coqZ(s.dv), coqZ(deleg), coqZ(unb))
}

func lkCoqPeriods(ps sdkvesting.Periods, d int) string {
	out := []string{}
	for _, p := range ps {
		out = append(out, fmt.Sprintf("(%s,%s)", coqZi(p.Length), coqZ(p.Amount.AmountOf(lkDenoms[d]).BigInt())))
	}
	return coqList(out)
}

func (s *lkSnap) coqState(d int) string {
	va := s.va
	dv, df, deleg, unb := big.NewInt(0), big.NewInt(0), big.NewInt(0), big.NewInt(0)
	if d == 0 {
		dv, df, deleg, unb = s.dv, s.df, s.deleg, s.unb
	} else {
		dv = va.DelegatedVesting.AmountOf(lkDenoms[1]).BigInt()
		df = va.DelegatedFree.AmountOf(lkDenoms[1]).BigInt()
	}
	return fmt.Sprintf("(mklkx (mklk (mklka %s %s %s %s %s %s %s) %s %s %s %s %s) true %s)",
		coqZ(va.OriginalVesting.AmountOf(lkDenoms[d]).BigInt()), lkCoqPeriods(va.LockupPeriods, d), lkCoqPeriods(va.VestingPeriods, d),
		coqZi(va.StartTime.Unix()), coqZi(va.EndTime), coqZ(dv), coqZ(df),
		coqZ(s.bal[d]), coqZ(deleg), coqZ(unb), coqZi(s.now), coqBool(d == 0), coqN(s.funder))
}

// ---------------------------------------------------------------- transactions
type lkTx struct{ msgs []sdk.Msg }

func (t lkTx) GetMsgs() []sdk.Msg   { return t.msgs }
func (t lkTx) ValidateBasic() error { return nil }

func (e *lkEnv) signEth(to common.Address, value *big.Int, data []byte) *ethtypes.Transaction {
	nonce := e.App.EvmKeeper.GetNonce(e.Ctx, lkV)
	tx := ethtypes.NewTx(&ethtypes.LegacyTx{Nonce: nonce, GasPrice: big.NewInt(0), Gas: 3_000_000, To: &to, Value: value, Data: data})
	stx, err := ethtypes.SignTx(tx, ethtypes.LatestSignerForChainID(e.App.EvmKeeper.ChainID()), lkKeyV)
	must(err)
	return stx
}

// ethPre runs the ante vesting decorator of the eth route on the transaction.
func (e *lkEnv) ethPre(tx *ethtypes.Transaction) (accepted bool) {
	msg := &evmtypes.MsgEthereumTx{}
	if err := msg.FromEthereumTx(tx); err != nil {
		panic(err)
	}
	msg.From = lkV.Hex()
	dec := evmante.NewEthVestingTransactionDecorator(e.App.AccountKeeper, e.App.BankKeeper, e.App.EvmKeeper)
	cctx, _ := e.Ctx.CacheContext()
	_, err := dec.AnteHandle(cctx, lkTx{[]sdk.Msg{msg}}, false, func(ctx sdk.Context, _ sdk.Tx, _ bool) (sdk.Context, error) { return ctx, nil })
	return err == nil
}

func (e *lkEnv) applyEth(tx *ethtypes.Transaction) error {
	return e.atomic(func(ctx sdk.Context) error {
		ctx = ctx.WithGasMeter(sdk.NewInfiniteGasMeter())
		res, err := e.App.EvmKeeper.ApplyTransaction(ctx, tx)
		if err != nil {
			return err
		}
		if res.Failed() {
			return fmt.Errorf("vm: %s", res.VmError)
		}
		return nil
	})
}

func (e *lkEnv) tick(dt int) {
	if dt < 0 {
		dt = 0
	}
	e.Ctx = e.Ctx.WithBlockHeight(e.Ctx.BlockHeight() + 1).WithBlockTime(e.Ctx.BlockTime().Add(time.Duration(dt) * time.Second))
}

// amount of a spend / delegation attempt from its mode and the reference state
func lkAmount(op lkOp, base *big.Int) *big.Int {
	switch op.Mode {
	case "sp-1", "dg-1":
		return new(big.Int).Sub(base, big.NewInt(1))
	case "sp", "dg":
		return new(big.Int).Set(base)
	case "sp+1", "dg+1":
		return new(big.Int).Add(base, big.NewInt(1))
	case "half":
		return new(big.Int).Rsh(base, 1)
	case "one":
		return big.NewInt(1)
	}
	return bigOf(op.Amt)
}

var lkStrict = true // "balance >= locked" demanded after every successful transaction other than a delegation (-arg strict=0: only after the account's own spends)

var lkSpendOps = map[string]bool{"erc20send": true, "send": true, "multisend": true, "authzsend": true, "ethsend": true, "ethcontract": true, "daofund": true,
	"govdeposit": true, "convertcoin": true, "fee": true, "ethfee": true}
var lkDelegOps = map[string]bool{"delegate": true, "authzdelegate": true, "pdelegate": true, "createval": true, "authzcreateval": true, "pcreateval": true}

// validator creation (the self-bond of MsgCreateValidator is a delegation) and its route in the Coq model
var lkCreateValRoute = map[string]string{"createval": "LkRouteMsg", "authzcreateval": "LkRouteAuthz", "pcreateval": "LkRoutePrecompile"}

// the consensus key of the account's validator
var lkValPub = func() *ed25519.PubKey {
	seed := make([]byte, 32)
	seed[0], seed[1] = 0xC0, 0x08
	return ed25519.GenPrivKeyFromSecret(seed).PubKey().(*ed25519.PubKey)
}()

// createValidator requests MsgCreateValidator{delegator = operator = the account, Value = x aISLM} over one of the
// three routes; commission 10 % (the chain's minimum is 5 %), MinSelfDelegation 1.
func (e *lkEnv) createValidator(route string, x *big.Int) error {
	oper := sdk.ValAddress(lkAccV)
	if route == "pcreateval" {
		// the staking precompile, called directly by the account in an Ethereum transaction it signs (caller = signer)
		desc := stakingprecompile.Description{Moniker: "lkv"}
		comm := stakingprecompile.Commission{Rate: big.NewInt(100_000_000_000_000_000), MaxRate: big.NewInt(200_000_000_000_000_000), MaxChangeRate: big.NewInt(10_000_000_000_000_000)}
		data, err := e.sABI.Pack("createValidator", desc, comm, big.NewInt(1), lkV, oper.String(), base64Std(lkValPub.Bytes()), x)
		must(err)
		return e.applyEth(e.signEth(evmAddr[aPS], big.NewInt(0), data))
	}
	msg, err := stakingtypes.NewMsgCreateValidator(oper, lkValPub, lkCoin(0, x), stakingtypes.NewDescription("lkv", "", "", "", ""),
		stakingtypes.NewCommissionRates(sdk.NewDecWithPrec(10, 2), sdk.NewDecWithPrec(20, 2), sdk.NewDecWithPrec(1, 2)), sdk.OneInt())
	must(err)
	if route == "authzcreateval" {
		m := authz.NewMsgExec(lkG, []sdk.Msg{msg})
		_, err = e.runMsg(&m)
		return err
	}
	_, err = e.runMsg(msg)
	return err
}

type lkStep struct {
	coq  []string // model steps (each paired with the observation after the op)
	err  error
	skip bool
	amt  [2]*big.Int
	pre  *bool // eth ante verdict
}

func (e *lkEnv) apply(op lkOp, pre *lkSnap) lkStep {
	st := lkStep{amt: [2]*big.Int{big.NewInt(0), big.NewInt(0)}}
	val := e.valAddr
	z := func(x *big.Int) string { return coqZ(x) }
	switch {
	case lkSpendOps[op.Op]:
		d := op.D
		if op.Op == "ethsend" || op.Op == "ethcontract" || op.Op == "daofund" || op.Op == "fee" || op.Op == "ethfee" {
			d = 0
		}
		if op.Op == "convertcoin" || op.Op == "erc20send" {
			d = 1
		}
		x := lkAmount(op, pre.spendable(d))
		if x.Sign() <= 0 {
			st.skip = true
			return st
		}
		st.amt[d] = x
		if op.Op == "multisend" && op.Amt != "" { // both denominations in one input
			if y := bigOf(op.Amt); y.Sign() > 0 {
				st.amt[1-d] = y
			}
		}
		coins := lkCoins2(st.amt)
		switch op.Op {
		case "send", "erc20send":
			_, st.err = e.runMsg(banktypes.NewMsgSend(lkAccV, lkR, coins))
		case "multisend":
			half := sdk.Coins{}
			rest := sdk.Coins{}
			for _, c := range coins {
				h := c.Amount.QuoRaw(2)
				if h.IsPositive() {
					half = append(half, sdk.NewCoin(c.Denom, h))
				}
				if c.Amount.Sub(h).IsPositive() {
					rest = append(rest, sdk.NewCoin(c.Denom, c.Amount.Sub(h)))
				}
			}
			outs := []banktypes.Output{banktypes.NewOutput(lkR, rest)}
			if !half.IsZero() {
				outs = append(outs, banktypes.NewOutput(lkR2, half))
			}
			_, st.err = e.runMsg(banktypes.NewMsgMultiSend([]banktypes.Input{banktypes.NewInput(lkAccV, coins)}, outs))
		case "authzsend":
			m := authz.NewMsgExec(lkG, []sdk.Msg{banktypes.NewMsgSend(lkAccV, lkR, coins)})
			_, st.err = e.runMsg(&m)
		case "ethsend", "ethcontract":
			var tx *ethtypes.Transaction
			if op.Op == "ethsend" {
				tx = e.signEth(common.BytesToAddress(lkR), x, nil)
			} else {
				// value goes to the script contract, which forwards it to R in an inner call
				tx = e.signEth(evmAddr[aC1], x, encCall(0, lkR, x, nil))
			}
			acc := e.ethPre(tx)
			st.pre = &acc
			st.coq = append(st.coq, fmt.Sprintf("L2EthPre %s %s", z(x), coqBool(acc)))
			st.err = e.applyEth(tx)
		case "daofund":
			_, st.err = e.runMsg(ucdaotypes.NewMsgFund(coins, lkAccV))
		case "govdeposit":
			_, st.err = e.runMsg(govv1.NewMsgDeposit(lkAccV, e.propID, coins))
		case "convertcoin":
			_, st.err = e.runMsg(erc20types.NewMsgConvertCoin(coins[0], lkV, lkAccV))
		case "fee":
			b := e.App.GetTxConfig().NewTxBuilder()
			must(b.SetMsgs(banktypes.NewMsgSend(lkAccV, lkR, sdk.NewCoins(sdk.NewInt64Coin(lkDenoms[0], 1)))))
			b.SetFeeAmount(coins)
			b.SetGasLimit(200000)
			dec := cosmosante.NewDeductFeeDecorator(e.App.AccountKeeper, e.App.BankKeeper, e.App.DistrKeeper, e.App.FeeGrantKeeper, e.App.StakingKeeper, nil)
			st.err = e.atomic(func(ctx sdk.Context) error {
				_, err := dec.AnteHandle(ctx, b.GetTx(), false, func(ctx sdk.Context, _ sdk.Tx, _ bool) (sdk.Context, error) { return ctx, nil })
				return err
			})
		case "ethfee":
			st.err = e.atomic(func(ctx sdk.Context) error { return e.App.EvmKeeper.DeductTxCostsFromUserBalance(ctx, coins, lkV) })
		}
		st.coq = append(st.coq, fmt.Sprintf("L2Send %s %s", z(st.amt[0]), z(st.amt[1])))
	case lkDelegOps[op.Op]:
		x := lkAmount(op, pre.delegatable())
		if op.Mode == "bal" {
			x = new(big.Int).Set(pre.bal[0])
		}
		if x.Sign() <= 0 {
			st.skip = true
			return st
		}
		st.amt[0] = x
		if route, isCV := lkCreateValRoute[op.Op]; isCV {
			st.err = e.createValidator(op.Op, x)
			// the staking module refuses a second validator of the same operator whatever the amount (its own
			// business, not modelled): the model sees the requests of an account that is not a validator yet
			if !pre.isVal {
				st.coq = append(st.coq, fmt.Sprintf("L2CreateValidator %s %s", route, z(x)))
			}
			return st
		}
		msg := stakingtypes.NewMsgDelegate(lkAccV, val, lkCoin(0, x))
		switch op.Op {
		case "delegate":
			_, st.err = e.runMsg(msg)
		case "authzdelegate":
			m := authz.NewMsgExec(lkG, []sdk.Msg{msg})
			_, st.err = e.runMsg(&m)
		case "pdelegate":
			data, err := e.sABI.Pack("delegate", lkV, e.valStr, x)
			must(err)
			st.err = e.applyEth(e.signEth(evmAddr[aPS], big.NewInt(0), data))
		}
		st.coq = append(st.coq, fmt.Sprintf("L2Delegate %s", z(x)))
	default:
		switch op.Op {
		case "receive":
			x := [2]*big.Int{big.NewInt(0), big.NewInt(0)}
			x[op.D] = bigOf(op.Amt)
			if x[op.D].Sign() <= 0 {
				st.skip = true
				return st
			}
			// a plain credit (MsgSend of a denomination with a registered ERC20 pair would deliver tokens instead of coins)
			st.err = e.atomic(func(ctx sdk.Context) error { return e.App.BankKeeper.SendCoins(ctx, lkF, lkAccV, lkCoins2(x)) })
			st.coq = append(st.coq, fmt.Sprintf("L2Receive %s %s", z(x[0]), z(x[1])))
		case "undelegate":
			// relative to what is delegated to the validator addressed: the genesis validator, or (own) the account's own
			base, from := pre.delegVal, val
			if op.Own {
				base, from = pre.delegOwn, sdk.ValAddress(lkAccV)
			}
			x := lkAmount(op, base)
			if x.Sign() <= 0 {
				st.skip = true
				return st
			}
			st.amt[0] = x
			_, st.err = e.runMsg(stakingtypes.NewMsgUndelegate(lkAccV, from, lkCoin(0, x)))
			// whether the staking module accepts the amount is its own business (shares/tokens rounding): the model
			// sees accepted undelegations only; the unbonding entry holds what the shares were worth: see the resync step
			if st.err == nil {
				st.coq = append(st.coq, fmt.Sprintf("L2Undelegate %s", z(x)))
			}
		case "adv":
			e.tick(op.DT)
			st.coq = append(st.coq, fmt.Sprintf("L2Advance %s", coqZi(int64(op.DT))))
		case "endblock":
			e.tick(op.DT)
			st.coq = append(st.coq, fmt.Sprintf("L2Advance %s", coqZi(int64(op.DT))))
			st.err = e.atomic(func(ctx sdk.Context) error { e.App.StakingKeeper.BlockValidatorUpdates(ctx); return nil })
			// the completion amount is read off the unbonding entries by the caller
		case "slash":
			v, ok := e.App.StakingKeeper.GetValidator(e.Ctx, val)
			if !ok {
				st.skip = true
				return st
			}
			cons, _ := v.GetConsAddr()
			pw := v.ConsensusPower(sdk.DefaultPowerReduction)
			h := e.Ctx.BlockHeight() - int64(op.DT)
			if h < 1 {
				h = 1
			}
			st.err = e.atomic(func(ctx sdk.Context) error {
				e.App.StakingKeeper.Slash(ctx, cons, h, pw, bnDec(op.Frac))
				return nil
			})
		case "clawback":
			from, id := lkFunder(op.Who)
			// the capped lockup schedule is an input of the model: ask the pure function (fresh copy: the
			// value receiver shares the embedded base account)
			if pre.va != nil {
				cp := *pre.va
				base := *pre.va.BaseVestingAccount
				cp.BaseVestingAccount = &base
				upd, _ := cp.ComputeClawback(e.Ctx.BlockTime().Unix())
				st.coq = append(st.coq, fmt.Sprintf("L2Clawback %s %s %s %s", coqN(id), lkCoqPeriods(upd.LockupPeriods, 0), lkCoqPeriods(upd.LockupPeriods, 1), coqZi(upd.EndTime)))
			} else {
				st.coq = append(st.coq, fmt.Sprintf("L2Clawback %s [] [] 0%%Z", coqN(id))) // a plain account: refused whatever the schedule
			}
			_, st.err = e.runMsg(vestingtypes.NewMsgClawback(from, lkAccV, lkR2))
		case "grant":
			s := op.Sched
			from, id := lkFunder(op.Who)
			start := e.t0.Add(time.Duration(s.Start) * time.Second)
			_, st.err = e.runMsg(vestingtypes.NewMsgCreateClawbackVestingAccount(from, lkAccV, start, lkPeriods(s.Lockup), lkPeriods(s.Vesting), true))
			if st.err == nil {
				va := e.vacc()
				g := lkTotal(s.Vesting)
				st.coq = append(st.coq, fmt.Sprintf("L2AddGrant %s %s %s %s %s %s %s %s %s", coqN(id), z(g[0]), z(g[1]), coqZi(va.StartTime.Unix()), coqZi(va.EndTime),
					lkCoqPeriods(va.LockupPeriods, 0), lkCoqPeriods(va.LockupPeriods, 1), lkCoqPeriods(va.VestingPeriods, 0), lkCoqPeriods(va.VestingPeriods, 1)))
			} else if pre.va == nil || id != pre.funder {
				// refused before the schedules are looked at (not a vesting account / not the funder): the model must refuse too
				st.coq = append(st.coq, fmt.Sprintf("L2AddGrant %s 0%%Z 0%%Z 0%%Z 0%%Z [] [] [] []", coqN(id)))
			}
		case "convert":
			_, st.err = e.runMsg(vestingtypes.NewMsgConvertVestingAccount(lkAccV))
			st.coq = append(st.coq, "L2Convert")
		case "into":
			s := op.Sched
			from, id := lkFunder(op.Who)
			start := e.t0.Add(time.Duration(s.Start) * time.Second)
			mk := func(stake bool) sdk.Msg {
				var v sdk.ValAddress
				if stake {
					v = val
				}
				return vestingtypes.NewMsgConvertIntoVestingAccount(from, lkAccV, start, lkPeriods(s.Lockup), lkPeriods(s.Vesting), op.Merge, stake, v)
			}
			g := lkTotal(s.Vesting)
			schedTerm := func(va *vestingtypes.ClawbackVestingAccount) string {
				return fmt.Sprintf("%s %s %s %s %s %s %s %s %s %s", coqN(id), coqBool(op.Merge), z(g[0]), z(g[1]), coqZi(va.StartTime.Unix()), coqZi(va.EndTime),
					lkCoqPeriods(va.LockupPeriods, 0), lkCoqPeriods(va.LockupPeriods, 1), lkCoqPeriods(va.VestingPeriods, 0), lkCoqPeriods(va.VestingPeriods, 1))
			}
			// the message's own start time and vesting periods (bond denomination): what delegateVestedCoins reads
			stakeTerm := func() string { return fmt.Sprintf("%s %s", coqZi(start.Unix()), lkCoqPeriods(lkPeriods(s.Vesting), 0)) }
			var probe *vestingtypes.ClawbackVestingAccount
			if op.Stake {
				// the schedule the account gets from this message: the same message without the stake option on a
				// throw-away context (needed as model input when the stake part refuses the whole message)
				probe = e.probeVacc(mk(false))
			}
			_, st.err = e.runMsg(mk(op.Stake))
			switch {
			case st.err == nil && op.Stake:
				st.coq = append(st.coq, fmt.Sprintf("L2ConvertIntoStake %s %s", schedTerm(e.vacc()), stakeTerm()))
			case st.err == nil:
				st.coq = append(st.coq, "L2ConvertInto "+schedTerm(e.vacc()))
			case pre.va != nil && (!op.Merge || id != pre.funder):
				// a vesting account without --merge, or a merge by somebody else: refused before the schedules are looked at
				st.coq = append(st.coq, fmt.Sprintf("L2ConvertInto %s %s 0%%Z 0%%Z 0%%Z 0%%Z [] [] [] []", coqN(id), coqBool(op.Merge)))
			case op.Stake && probe != nil:
				// the schedule part is acceptable, the stake part refused the message: the model must refuse as well
				st.coq = append(st.coq, fmt.Sprintf("L2ConvertIntoStake %s %s", schedTerm(probe), stakeTerm()))
			}
		case "updatefunder":
			from, id := lkFunder(op.Who)
			to, tid := lkFunder(op.To)
			_, st.err = e.runMsg(vestingtypes.NewMsgUpdateVestingFunder(from, to, lkAccV))
			st.coq = append(st.coq, fmt.Sprintf("L2UpdateFunder %s %s", coqN(id), coqN(tid)))
		default:
			st.err = fmt.Errorf("bad op %q", op.Op)
			st.skip = true
		}
	}
	return st
}

// ---------------------------------------------------------------- one case
func (e *lkEnv) setupAccount(in lkInput) error {
	start := e.t0.Add(time.Duration(in.Sched.Start) * time.Second)
	extra := [2]*big.Int{bigOf(in.Extra[0]), bigOf(in.Extra[1])}
	if in.Erc20 {
		meta := banktypes.Metadata{Description: "d", Base: lkDenoms[1], Name: lkDenoms[1], Symbol: "TEST", Display: "test",
			DenomUnits: []*banktypes.DenomUnit{{Denom: lkDenoms[1], Exponent: 0}, {Denom: "test", Exponent: 6}}}
		if _, err := e.App.Erc20Keeper.RegisterCoin(e.Ctx, meta); err != nil {
			return fmt.Errorf("register coin: %w", err)
		}
	}
	var stakeVal sdk.ValAddress
	if in.Stake {
		stakeVal = e.valAddr
	}
	if in.Create == "new" {
		// no account at the address: ApplyVestingSchedule creates the vesting account
		if acc := e.App.AccountKeeper.GetAccount(e.Ctx, lkAccV); acc != nil {
			return fmt.Errorf("new: the account exists already")
		}
		msg := vestingtypes.NewMsgConvertIntoVestingAccount(lkF, lkAccV, start, lkPeriods(in.Sched.Lockup), lkPeriods(in.Sched.Vesting), false, in.Stake, stakeVal)
		if _, err := e.runMsg(msg); err != nil {
			return fmt.Errorf("new: %w", err)
		}
		if cs := lkCoins2(extra); !cs.IsZero() {
			if err := e.App.BankKeeper.SendCoins(e.Ctx, lkF, lkAccV, cs); err != nil {
				return err
			}
		}
	} else if in.Create == "convert" {
		pd := bigOf(in.PreDeleg)
		fund := [2]*big.Int{new(big.Int).Add(extra[0], pd), extra[1]}
		if fund[0].Sign() == 0 {
			fund[0] = big.NewInt(1)
		}
		if err := testutil.FundAccount(e.Ctx, e.App.BankKeeper, lkAccV, lkCoins2(fund)); err != nil {
			return err
		}
		if pd.Sign() > 0 {
			if _, err := e.runMsg(stakingtypes.NewMsgDelegate(lkAccV, e.valAddr, lkCoin(0, pd))); err != nil {
				return fmt.Errorf("pre-delegation: %w", err)
			}
		}
		msg := vestingtypes.NewMsgConvertIntoVestingAccount(lkF, lkAccV, start, lkPeriods(in.Sched.Lockup), lkPeriods(in.Sched.Vesting), false, in.Stake, stakeVal)
		if _, err := e.runMsg(msg); err != nil {
			return fmt.Errorf("convert: %w", err)
		}
	} else {
		msg := vestingtypes.NewMsgCreateClawbackVestingAccount(lkF, lkAccV, start, lkPeriods(in.Sched.Lockup), lkPeriods(in.Sched.Vesting), false)
		if _, err := e.runMsg(msg); err != nil {
			return fmt.Errorf("create: %w", err)
		}
		if cs := lkCoins2(extra); !cs.IsZero() {
			// plain keeper credit: MsgSend of a denomination with an ERC20 pair would deliver tokens
			if err := e.App.BankKeeper.SendCoins(e.Ctx, lkF, lkAccV, cs); err != nil {
				return err
			}
		}
	}
	// grants of the vesting account to G: delegate (staking authorization), bank send and validator creation (generic)
	exp := e.Ctx.BlockTime().Add(10 * 365 * 24 * time.Hour)
	sa, err := stakingtypes.NewStakeAuthorization([]sdk.ValAddress{e.valAddr}, nil, stakingtypes.AuthorizationType_AUTHORIZATION_TYPE_DELEGATE, nil)
	if err != nil {
		return err
	}
	for _, a := range []authz.Authorization{sa, authz.NewGenericAuthorization(sdk.MsgTypeURL(&banktypes.MsgSend{})),
		authz.NewGenericAuthorization(sdk.MsgTypeURL(&stakingtypes.MsgCreateValidator{}))} {
		m, err := authz.NewMsgGrant(lkAccV, lkG, a, &exp)
		if err != nil {
			return err
		}
		if _, err := e.runMsg(m); err != nil {
			return fmt.Errorf("authz grant: %w", err)
		}
	}
	return nil
}

func lockedRunCase(id string, in lkInput) Case {
	e := lkBaseEnv().fork()
	e.Ctx = e.Ctx.WithGasMeter(sdk.NewInfiniteGasMeter())
	kb, _ := json.Marshal(in)
	c := Case{ID: id, Kind: "history", Input: in, Key: string(kb), CoqList: "cases", OracleOK: true}
	if err := e.setupAccount(in); err != nil {
		c.Obs = map[string]string{"setup_error": err.Error()}
		c.Tags = []string{"setup-failed"}
		return c
	}
	pre := e.snap()
	if pre.va == nil {
		c.Obs = map[string]string{"setup_error": "not a vesting account"}
		c.Tags = []string{"setup-failed"}
		return c
	}
	init := fmt.Sprintf("(%s,\n   %s)", pre.coqState(0), pre.coqState(1))
	steps := []string{}
	obsAll := []lkObs{}
	tags := map[string]bool{"create:" + in.Create: true}
	if in.Stake {
		tags["create:"+in.Create+" with stake"] = true
	}
	if in.Erc20 {
		tags["erc20-pair"] = true
	}
	nOKSpend, nOKDeleg := 0, 0
	slashed := false
	oracle, oracleObl := "", ""
	fail := func(i int, op lkOp, msg string) {
		if oracle == "" {
			oracle = fmt.Sprintf("step %d (%s %s): %s", i, op.Op, op.Mode, msg)
		}
	}
	// obligations of schedules discarded by a conversion that should not have succeeded; reported separately
	failObl := func(i int, op lkOp, msg string) {
		if oracleObl == "" {
			oracleObl = fmt.Sprintf("step %d (%s %s): %s", i, op.Op, op.Mode, msg)
		}
	}
	// the property on the state the creating message left (MsgConvertIntoVestingAccount{Stake} delegates at creation)
	for d := 0; d < 2; d++ {
		if l := pre.ref.locked(pre.now, d); pre.bal[d].Cmp(l) < 0 {
			fail(-1, lkOp{Op: "setup:" + in.Create}, fmt.Sprintf("the creating message left a %s balance of %s below the locked amount %s (original %s, tracked delegated %s)",
				lkDenoms[d], pre.bal[d], l, pre.ref.Orig[d], pre.ref.Tracked[d]))
		}
	}
	if u := pre.ref.unvested(pre.now, 0); pre.bal[0].Cmp(u) < 0 {
		fail(-1, lkOp{Op: "setup:" + in.Create}, fmt.Sprintf("the creating message left balance %s below the unvested amount %s: unvested coins were delegated (bonded %s)", pre.bal[0], u, pre.deleg))
	}
	shadows := []*lkShadow{}
	decorate := func(s *lkSnap) {
		for _, sh := range shadows {
			for d := 0; d < 2; d++ {
				if l := sh.ref.locked(s.now, d); l.Sign() > 0 {
					s.oblLocked[d].Add(s.oblLocked[d], l)
				}
			}
			if u := sh.ref.unvested(s.now, 0); u.Sign() > 0 {
				s.oblUnvested.Add(s.oblUnvested, u)
			}
		}
	}
	// expected (deleg, unbonding) by plain arithmetic; deviations (slash, share rounding) are fed to the model
	expDeleg, expUnb := new(big.Int).Set(pre.deleg), new(big.Int).Set(pre.unb)
	for i, op := range in.Ops {
		st := e.apply(op, &pre)
		if st.skip {
			tags[op.Op+":skipped"] = true
			continue
		}
		post := e.snap()
		ok := st.err == nil
		if op.Op == "erc20send" {
			// MsgSend of a denomination with a registered ERC20 pair: the whole spendable coin balance is
			// converted to tokens, then tokens are transferred; the model sees the coin debit that happened
			st.coq = nil
			if debit := sub(pre.bal[1], post.bal[1]); ok && debit.Sign() > 0 {
				st.coq = []string{fmt.Sprintf("L2Send 0%%Z %s", coqZ(debit))}
				tags["erc20-route-send:coins-converted"] = true
			}
		}
		// a merged grant adds its own release events to the account's: at every instant after both schedules have started
		// the account releases (vests / unlocks) the sum of what it released before and what the grant as signed releases
		if ok && (op.Op == "grant" || (op.Op == "into" && op.Merge)) && pre.va != nil && post.va != nil {
			if m := lkMergeAdditive(pre.va, post.va, e.t0.Unix()+op.Sched.Start, lkPeriods(op.Sched.Lockup), lkPeriods(op.Sched.Vesting), post.now); m != "" {
				fail(i, op, m)
			}
		}
		obsAll = append(obsAll, post.obs(st.err))
		res := "ok"
		if !ok {
			res = "rejected"
		}
		kind := ""
		if pre.va == nil {
			kind = " [plain]"
		}
		mode := op.Mode
		if op.Op == "into" {
			mode = map[bool]string{false: "", true: "merge"}[op.Merge] + map[bool]string{false: "", true: "+stake"}[op.Stake]
		}
		if op.Op == "undelegate" && op.Own {
			mode += " own"
		}
		tags[fmt.Sprintf("%s %s%s:%s", op.Op, mode, kind, res)] = true
		now := post.now
		if _, isCV := lkCreateValRoute[op.Op]; isCV {
			// shape of the state the validator creation was requested in (from the reference, not from the code)
			sched := "plain account"
			if pre.va != nil {
				v := lkRefEv(pre.ref.Start, pre.ref.Vesting, now, 0)
				switch {
				case now <= pre.ref.Start:
					sched = "before the schedule"
				case v.Sign() == 0:
					sched = "nothing vested"
				case v.Cmp(pre.ref.Orig[0]) < 0:
					sched = "part vested"
				case pre.ref.lockedUp(now, 0).Sign() > 0:
					sched = "all vested, locked up"
				default:
					sched = "schedule done"
				}
			}
			rel := "below the delegatable amount"
			if c := st.amt[0].Cmp(pre.delegatable()); c == 0 {
				rel = "equal to the delegatable amount"
			} else if c > 0 {
				rel = "above the delegatable amount"
			}
			if st.amt[0].Cmp(pre.bal[0]) > 0 {
				rel = "above the balance"
			}
			who := ""
			if pre.isVal {
				who = ", already a validator"
			}
			tags[fmt.Sprintf("%s: %s, self-bond %s, bonded-before=%v%s -> %s", op.Op, sched, rel, pre.deleg.Sign() > 0, who, res)] = true
			if ok {
				tags["validator-created"] = true
				if !post.isVal || sub(post.delegOwn, pre.delegOwn).Cmp(st.amt[0]) != 0 {
					fail(i, op, fmt.Sprintf("validator creation succeeded but the account's validator (exists=%v) holds a self-bond of %s, requested %s", post.isVal, post.delegOwn, st.amt[0]))
				}
			}
		}
		var stakeRef *big.Int // into{Stake}: the vested part of THIS grant at the block time, by the reference
		// ---- the account-type operations
		switch op.Op {
		case "convert":
			if pre.va != nil {
				// shape of the state the conversion was requested in (from the reference, not from the code)
				r := pre.ref
				unv, lup, trk := false, false, "none"
				for d := 0; d < 2; d++ {
					unv = unv || r.unvested(now, d).Sign() > 0
					lup = lup || r.lockedUp(now, d).Sign() > 0
				}
				// vested but locked up: is it covered by the tracked delegation (bond denomination)
				v0 := lkRefEv(r.Start, r.Vesting, now, 0)
				luv := sub(v0, bigMin(lkRefEv(r.Start, r.Lockup, now, 0), v0))
				switch {
				case r.Tracked[0].Sign() == 0:
				case r.Tracked[0].Cmp(luv) < 0:
					trk = "partial"
				default:
					trk = "full"
				}
				tags[fmt.Sprintf("convert: unvested=%v locked-up=%v tracked-delegation=%s unbonding-in-flight=%v slashed=%v -> %s", unv, lup, trk, pre.unb.Sign() > 0, slashed, res)] = true
			}
			if ok {
				if pre.va == nil || post.va != nil {
					fail(i, op, fmt.Sprintf("MsgConvertVestingAccount succeeded but the account kind is vesting=%v -> vesting=%v", pre.va != nil, post.va != nil))
					break
				}
				// the property: a clawback vesting account may stop being one only when its SCHEDULE is done:
				// GetVestingCoins(t) = 0 and GetLockedUpCoins(t) = original - unlocked = 0, whatever is delegated
				r := pre.ref
				bad := false
				for d := 0; d < 2; d++ {
					u, l := r.unvested(now, d), r.lockedUp(now, d)
					if u.Sign() > 0 || l.Sign() > 0 {
						bad = true
						fail(i, op, fmt.Sprintf("MsgConvertVestingAccount succeeded at block time t0%+ds although the schedule still locks coins: locked up per the lock-up schedule %s %s (original %s, unlocked %s), unvested %s, tracked delegated %s, balance %s; the lock-up ends %d s later — the account is now a plain account and the schedule is gone",
							now-e.t0.Unix(), l, lkDenoms[d], r.Orig[d], sub(r.Orig[d], l), u, r.Tracked[d], post.bal[d], r.end()-now))
					}
				}
				if bad {
					shadows = append(shadows, &lkShadow{ref: r.clone(), at: now, step: i})
					tags["convert:ok-with-locked-coins"] = true
				} else {
					tags["convert:ok-schedule-done"] = true
				}
			}
		case "into":
			if ok && pre.va == nil && post.va != nil {
				tags["into:plain->vesting"] = true
			}
			if ok && pre.va != nil {
				tags["into:merged"] = true
			}
			if op.Stake {
				gs := e.t0.Unix() + op.Sched.Start
				gp := []lkRefPeriod{}
				for _, p := range op.Sched.Vesting {
					gp = append(gp, lkRefPeriod{p.Len, [2]*big.Int{bigOf(p.Amt[0]), bigOf(p.Amt[1])}})
				}
				stakeRef = lkRefEv(gs, gp, now, 0)
				// what the earlier grants had vested, and what of it is still in the balance
				oldV := lkRefEv(pre.ref.Start, pre.ref.Vesting, now, 0)
				shape := "onto a plain account"
				if pre.va != nil {
					held := sub(pre.bal[0], pre.ref.unvested(now, 0)) // vested or free coins in the balance
					switch {
					case oldV.Sign() == 0:
						shape = "earlier grants: nothing vested"
					case held.Cmp(oldV) >= 0:
						shape = "earlier grants: vested coins all held"
					case held.Sign() > 0:
						shape = "earlier grants: vested coins partly gone"
					default:
						shape = "earlier grants: vested coins all gone"
					}
					shape += fmt.Sprintf(" (bonded=%v unbonding=%v)", pre.deleg.Sign() > 0, pre.unb.Sign() > 0)
				} else if pre.deleg.Sign() > 0 || pre.unb.Sign() > 0 {
					shape += " with delegations"
				}
				part := "none"
				if g0 := lkTotal(op.Sched.Vesting)[0]; stakeRef.Sign() > 0 && stakeRef.Cmp(g0) < 0 {
					part = "part"
				} else if stakeRef.Sign() > 0 {
					part = "all"
				}
				tags[fmt.Sprintf("into+stake merge=%v: %s, this grant vested: %s -> %s", op.Merge, shape, part, res)] = true
				if ok {
					g := lkTotal(op.Sched.Vesting)
					staked := sub(new(big.Int).Add(pre.bal[0], g[0]), post.bal[0])
					st.amt[0] = staked
					// Unvested coins can not be delegated, whoever requests the delegation: after the message all
					// unvested coins (reference evaluation of the stored schedule) must still be in the balance
					if u := new(big.Int).Add(post.ref.unvested(now, 0), post.oblUnvested); post.bal[0].Cmp(u) < 0 {
						fail(i, op, fmt.Sprintf("MsgConvertIntoVestingAccount{merge=%v, stake} deposited %s and staked %s: the balance %s is now below the unvested amount %s — unvested coins were delegated (the vested part of this grant is %s; before the message: balance %s, unvested %s, earlier grants vested %s)",
							op.Merge, g[0], staked, post.bal[0], u, stakeRef, pre.bal[0], pre.ref.unvested(now, 0), oldV))
					}
					if staked.Cmp(stakeRef) == 0 {
						tags["into+stake: staked = vested part of this grant"] = true
					} else {
						tags["into+stake: staked differs from the vested part of this grant"] = true
					}
				}
			}
		case "updatefunder":
			if ok && post.funder == pre.funder {
				fail(i, op, "MsgUpdateVestingFunder succeeded without changing the funder")
			}
		}
		if ok && op.Op != "convert" && op.Op != "into" && (pre.va != nil) != (post.va != nil) {
			fail(i, op, fmt.Sprintf("the account kind changed (vesting=%v -> vesting=%v) by an operation that is not a conversion", pre.va != nil, post.va != nil))
		}
		// obligations follow the SDK tracking rules as if the account had not been converted
		if len(shadows) > 0 && ok {
			switch {
			case lkDelegOps[op.Op] && post.va == nil:
				sh := shadows[len(shadows)-1]
				sh.ref.Tracked[0].Add(sh.ref.Tracked[0], st.amt[0])
			case op.Op == "endblock" && post.va == nil:
				y := sub(pre.unb, post.unb)
				for _, sh := range shadows {
					if y.Sign() <= 0 {
						break
					}
					x := bigMin(sh.ref.Tracked[0], y)
					sh.ref.Tracked[0] = sub(sh.ref.Tracked[0], x)
					y = sub(y, x)
				}
			}
		}
		decorate(&post)
		// ---- the property on the implementation's behaviour
		switch {
		case lkSpendOps[op.Op] && ok:
			nOKSpend++
			for d := 0; d < 2; d++ {
				if l := post.ref.locked(now, d); post.bal[d].Cmp(l) < 0 {
					fail(i, op, fmt.Sprintf("successful spend left a %s balance of %s below the locked amount %s (original %s, tracked delegated %s)",
						lkDenoms[d], post.bal[d], l, post.ref.Orig[d], post.ref.Tracked[d]))
				}
				if out := sub(pre.bal[d], post.bal[d]); out.Cmp(pre.spendable(d)) > 0 {
					fail(i, op, fmt.Sprintf("%s %s left the account, spendable was %s", out, lkDenoms[d], pre.spendable(d)))
				}
			}
		case lkDelegOps[op.Op] && ok:
			nOKDeleg++
			if u := new(big.Int).Add(post.ref.unvested(now, 0), post.oblUnvested); post.bal[0].Cmp(u) < 0 {
				if _, isCV := lkCreateValRoute[op.Op]; isCV {
					fail(i, op, fmt.Sprintf("validator created (%s) with a self-bond of %s although the account could delegate at most %s (balance %s, unvested %s): the balance %s is now below the unvested amount %s — unvested coins were delegated (DelegatedFree %s, DelegatedVesting %s)",
						map[string]string{"createval": "MsgCreateValidator", "authzcreateval": "MsgCreateValidator inside authz MsgExec", "pcreateval": "staking precompile createValidator, Ethereum transaction signed by the account"}[op.Op],
						st.amt[0], pre.delegatable(), pre.bal[0], pre.ref.unvested(now, 0), post.bal[0], u, post.df, post.dv))
				} else {
					fail(i, op, fmt.Sprintf("delegation of %s accepted: balance %s is now below the unvested amount %s — unvested coins were delegated", st.amt[0], post.bal[0], u))
				}
			}
		}
		if st.pre != nil && *st.pre && ok {
			// accepted by the ante pre-check and executed: covered by the spend rule above
			tags["eth-ante:accepted"] = true
		} else if st.pre != nil && !*st.pre {
			tags["eth-ante:rejected"] = true
		}
		under := false
		for d := 0; d < 2; d++ {
			if post.bal[d].Cmp(post.ref.locked(now, d)) < 0 {
				under = true
			}
		}
		checked := ok && !lkDelegOps[op.Op] && op.Op != "adv" && op.Op != "endblock" && op.Op != "slash"
		if under {
			tags[fmt.Sprintf("balance-below-locked after %s (slashed-before=%v)", op.Op, slashed)] = true
			if lkStrict && checked {
				fail(i, op, "after this successful transaction the balance is below the locked amount")
			}
		}
		// "unvested coins can not be delegated", as a state property: after EVERY successful operation (delegations,
		// merges, stake messages, clawbacks, time, slashes, payouts included) the unvested amount of the stored
		// schedule is still in the balance — what is bonded or unbonding never contains an unvested coin
		if ok {
			if u := new(big.Int).Add(post.ref.unvested(now, 0), post.oblUnvested); post.bal[0].Cmp(u) < 0 {
				fail(i, op, fmt.Sprintf("after this successful operation the balance %s is below the unvested amount %s (bonded %s, unbonding %s): unvested coins are delegated", post.bal[0], u, post.deleg, post.unb))
				tags[fmt.Sprintf("balance-below-unvested after %s", op.Op)] = true
			}
		}
		// the same rule against the obligations of discarded schedules (on top of the stored account's own locked amount)
		if len(shadows) > 0 && checked && op.Op != "convert" {
			for d := 0; d < 2; d++ {
				need := new(big.Int).Add(post.ref.locked(now, d), post.oblLocked[d])
				if post.oblLocked[d].Sign() > 0 && post.bal[d].Cmp(need) < 0 {
					sh := shadows[len(shadows)-1]
					failObl(i, op, fmt.Sprintf("coins left the account %d seconds before the lock-up end after a conversion at step %d (block time t0%+ds): after this successful %s the %s balance %s is %s below %s, the amount the discarded schedule still locks now (original %s, unlocked and vested %s, tracked delegated as if not converted %s)",
						sh.ref.end()-now, sh.step, sh.at-e.t0.Unix(), op.Op, lkDenoms[d], post.bal[d], sub(need, post.bal[d]), need,
						sh.ref.Orig[d], bigMin(lkRefEv(sh.ref.Start, sh.ref.Lockup, now, d), lkRefEv(sh.ref.Start, sh.ref.Vesting, now, d)), sh.ref.Tracked[d]))
					tags["obligation:balance-below-discarded-schedule"] = true
				}
			}
		}
		// ---- model steps
		if op.Op == "slash" && ok {
			slashed = true
		}
		switch op.Op {
		case "delegate", "authzdelegate", "pdelegate", "createval", "authzcreateval", "pcreateval":
			if ok {
				expDeleg.Add(expDeleg, st.amt[0])
			}
		case "into":
			if ok && op.Stake && stakeRef != nil {
				expDeleg.Add(expDeleg, stakeRef)
			}
		case "undelegate":
			if ok {
				x := st.amt[0]
				expDeleg.Sub(expDeleg, x)
				if expDeleg.Sign() < 0 { // share rounding: the staking module accepted more than it reports as bonded
					expDeleg.SetInt64(0)
				}
				expUnb.Add(expUnb, x)
			}
		}
		for k, sc := range st.coq {
			okk := ok
			if strings.HasPrefix(sc, "L2EthPre") || (op.Op == "endblock" && strings.HasPrefix(sc, "L2Advance")) {
				okk = true
			}
			if k < len(st.coq)-1 || op.Op == "endblock" || op.Op == "slash" {
				// intermediate model step: its observation is the state the model itself must be in; only the
				// last step of the op is compared with the implementation, so pair it with a neutral observation
				steps = append(steps, fmt.Sprintf("(%s, None)", sc))
				continue
			}
			steps = append(steps, fmt.Sprintf("(%s, %s)", sc, post.coqObs(okk, expDeleg, expUnb)))
		}
		if op.Op == "endblock" && ok {
			// matured unbonding entries were paid out
			if y := sub(pre.unb, post.unb); y.Sign() > 0 {
				credited := sub(post.bal[0], pre.bal[0])
				if credited.Cmp(y) != 0 {
					tags["endblock:credit-differs-from-unbonding-drop"] = true
				}
				steps = append(steps, fmt.Sprintf("(L2Complete %s, None)", coqZ(y)))
				expUnb.Sub(expUnb, y)
				tags["unbonding-completed"] = true
				if pre.va == nil {
					tags["unbonding-completed [plain]"] = true
				}
			}
		}
		if op.Op == "endblock" || op.Op == "slash" || post.deleg.Cmp(expDeleg) != 0 || post.unb.Cmp(expUnb) != 0 {
			if post.deleg.Cmp(expDeleg) != 0 || post.unb.Cmp(expUnb) != 0 {
				if op.Op != "slash" {
					tags["resync:"+op.Op] = true
				}
				if post.deleg.Cmp(expDeleg) > 0 || post.unb.Cmp(expUnb) > 0 {
					tags["resync-upwards"] = true // not expressible as a slash: the model will report a mismatch
				}
			}
			steps = append(steps, fmt.Sprintf("(L2Slash %s %s, %s)", coqZ(post.deleg), coqZ(post.unb), post.coqObs(true, post.deleg, post.unb)))
			expDeleg.Set(post.deleg)
			expUnb.Set(post.unb)
		}
		pre = post
	}
	tl := []string{}
	for t := range tags {
		tl = append(tl, t)
	}
	sort.Strings(tl)
	c.Obs = obsAll
	c.Coq = fmt.Sprintf("(%s,\n  [%s])", init, strings.Join(steps, ";\n   "))
	msgs := []string{}
	for _, m := range []string{oracle, oracleObl} {
		if m != "" {
			msgs = append(msgs, m)
		}
	}
	c.OracleOK = len(msgs) == 0
	c.OracleMsg = strings.Join(msgs, " || AND LATER: ")
	// class = shape of the input: a grant is merged after the account's stake was slashed
	seenSlash := false
	for _, op := range in.Ops {
		if op.Op == "slash" {
			seenSlash = true
		}
		if (op.Op == "grant" || (op.Op == "into" && op.Merge)) && seenSlash {
			c.Class = "vesting:grant-after-slash"
		}
	}
	c.Nontrivial = nOKSpend >= 1 && nOKDeleg+nOKSpend >= 3
	c.Tags = tl
	return c
}

// ---------------------------------------------------------------- generator
func lkGenSched(r *Rng, startLo, startHi int, scale int) lkSched {
	s := lkSched{Start: int64(startLo + r.Intn(startHi-startLo+1))}
	two := r.Chance(55)
	tot := [2]*big.Int{big.NewInt(0), big.NewInt(0)}
	nv := 1 + r.Intn(4)
	for i := 0; i < nv; i++ {
		p := lkPeriod{Len: int64([]int{1, 2, 50, 200, 600, 1500}[r.Intn(6)])}
		a0 := r.Big(scale)
		a0.Add(a0, big.NewInt(1))
		a1 := big.NewInt(0)
		if two && r.Chance(70) {
			a1 = r.Big(40)
		}
		if r.Chance(10) && a1.Sign() > 0 {
			a0 = big.NewInt(0)
		}
		p.Amt = [2]string{a0.String(), a1.String()}
		tot[0].Add(tot[0], a0)
		tot[1].Add(tot[1], a1)
		s.Vesting = append(s.Vesting, p)
	}
	// lockup: same totals split differently (or absent = instant unlock)
	if r.Chance(15) {
		return s
	}
	nl := 1 + r.Intn(3)
	rem := [2]*big.Int{new(big.Int).Set(tot[0]), new(big.Int).Set(tot[1])}
	for i := 0; i < nl; i++ {
		p := lkPeriod{Len: int64([]int{1, 30, 300, 900, 2500}[r.Intn(5)])}
		var a [2]*big.Int
		for d := 0; d < 2; d++ {
			if i == nl-1 {
				a[d] = rem[d]
			} else {
				a[d] = r.Below(new(big.Int).Add(rem[d], big.NewInt(1)))
			}
			rem[d] = new(big.Int).Sub(rem[d], a[d])
		}
		if a[0].Sign() == 0 && a[1].Sign() == 0 {
			continue
		}
		p.Amt = [2]string{a[0].String(), a[1].String()}
		s.Lockup = append(s.Lockup, p)
	}
	return s
}

// end of the vesting and of the lock-up schedule, in seconds relative to the creation block time
func lkEnds(s lkSched) (vestEnd, lockEnd int64) {
	vestEnd, lockEnd = s.Start, s.Start
	for _, p := range s.Vesting {
		vestEnd += p.Len
	}
	for _, p := range s.Lockup {
		lockEnd += p.Len
	}
	return
}

var lkSpendNames = []string{"send", "send", "multisend", "authzsend", "ethsend", "ethsend", "ethcontract", "daofund", "govdeposit", "fee", "ethfee"}
var lkDelegNames = []string{"delegate", "authzdelegate", "pdelegate"}
var lkCreateValNames = []string{"createval", "authzcreateval", "pcreateval"}

func lkWho(r *Rng, pF2 int) string {
	if r.Chance(pF2) {
		return "F2"
	}
	return ""
}

// one random operation of the general mix
func lkGenOp(r *Rng, in *lkInput, scale int) lkOp {
	spend := lkSpendNames
	if in.Erc20 {
		spend = append(append([]string{}, spend...), "convertcoin", "convertcoin", "erc20send")
	}
	x := r.Intn(100)
	switch {
	case x < 34:
		op := lkOp{Op: spend[r.Intn(len(spend))], D: r.Intn(2), Mode: []string{"sp-1", "sp", "sp+1", "sp+1", "half", "one"}[r.Intn(6)]}
		if op.Op == "multisend" && r.Chance(50) {
			op.Amt = "1"
		}
		if in.Erc20 && op.D == 1 && (op.Op == "send" || op.Op == "multisend" || op.Op == "authzsend") {
			// a registered coin pair makes MsgSend convert the whole spendable balance to ERC20 tokens first:
			// a different debit amount than the message's; keep these on the bond denomination
			op.D = 0
		}
		return op
	case x < 50:
		names := lkDelegNames
		if x >= 48 { // validator creation: the self-bond over the same three routes
			names = lkCreateValNames
		}
		return lkOp{Op: names[r.Intn(3)], Mode: []string{"dg-1", "dg", "dg+1", "dg+1", "half", "one"}[r.Intn(6)]}
	case x < 58:
		return lkOp{Op: "undelegate", Mode: []string{"sp", "half", "one", "sp-1"}[r.Intn(4)], Own: x == 57}
	case x < 66:
		return lkOp{Op: "endblock", DT: []int{1, 100, 350, 900}[r.Intn(4)]}
	case x < 77:
		return lkOp{Op: "adv", DT: []int{1, 10, 100, 400, 1500}[r.Intn(5)]}
	case x < 80:
		return lkOp{Op: "slash", Frac: []string{"10000000000000000", "100000000000000000", "333333333333333333", "500000000000000000"}[r.Intn(4)], DT: r.Intn(4)}
	case x < 83:
		a := r.Big(scale)
		return lkOp{Op: "receive", D: r.Intn(2), Mode: "abs", Amt: a.Add(a, big.NewInt(1)).String()}
	case x < 87:
		s := lkGenSched(r, -1500, 1500, scale)
		return lkOp{Op: "grant", Sched: &s, Who: lkWho(r, 20)}
	case x < 90:
		return lkOp{Op: "clawback", Who: lkWho(r, 20)}
	case x < 95:
		return lkOp{Op: "convert"}
	case x < 98:
		s := lkGenSched(r, -1500, 1500, scale)
		return lkOp{Op: "into", Sched: &s, Who: lkWho(r, 20), Merge: r.Chance(40), Stake: r.Chance(50)}
	default:
		if r.Chance(65) {
			return lkOp{Op: "updatefunder", Who: "", To: "F2"}
		}
		return lkOp{Op: "updatefunder", Who: "F2", To: ""}
	}
}

func lkGen(r *Rng) lkInput {
	switch x := r.Intn(100); {
	case x < 30:
		return lkGenAccountType(r)
	case x < 55:
		return lkGenStake(r)
	case x >= 85:
		return lkGenValidator(r)
	}
	scale := []int{12, 64, 90}[r.Intn(3)]
	in := lkInput{Create: "create", Sched: lkGenSched(r, -1500, 400, scale), Extra: [2]string{"0", "0"}}
	if r.Chance(30) {
		in.Create = "convert"
		if r.Chance(50) {
			x := r.Big(scale)
			in.PreDeleg = x.Add(x, big.NewInt(1)).String()
		}
	}
	if r.Chance(60) {
		in.Extra[0] = r.Big(scale).String()
	}
	if r.Chance(40) {
		in.Extra[1] = r.Big(40).String()
	}
	in.Erc20 = r.Chance(25)
	n := 18 + r.Intn(14)
	for k := 0; k < n; k++ {
		in.Ops = append(in.Ops, lkGenOp(r, &in, scale))
	}
	return in
}

// Histories around the account-type operations: the block time is steered to a chosen side of the vesting
// end and of the lock-up end (the generator knows the schedule), the locked-up amount is delegated not at
// all / partly / fully, optionally with an undelegation in flight, a clawback, a merged grant or a slash
// before; then MsgConvertVestingAccount, and the later life of the coins: undelegation, unbonding maturity
// (the staking end-blocker after the unbonding time), spend attempts at spendable / spendable+1 over the
// spend paths, delegation attempts, a conversion back into a vesting account, a second conversion.
func lkGenAccountType(r *Rng) lkInput {
	scale := []int{12, 64, 90}[r.Intn(3)]
	in := lkInput{Create: "create", Sched: lkGenSched(r, -1500, 100, scale), Extra: [2]string{"0", "0"}}
	if r.Chance(20) {
		in.Create = "convert"
		if r.Chance(50) {
			x := r.Big(scale)
			in.PreDeleg = x.Add(x, big.NewInt(1)).String()
		}
	}
	if r.Chance(40) {
		in.Extra[0] = r.Big(scale).String()
	}
	if r.Chance(20) {
		in.Extra[1] = r.Big(40).String()
	}
	in.Erc20 = r.Chance(15)
	vestEnd, lockEnd := lkEnds(in.Sched)
	cur := int64(0)
	add := func(op lkOp) {
		if op.Op == "adv" || op.Op == "endblock" {
			cur += int64(op.DT)
		}
		in.Ops = append(in.Ops, op)
	}
	advTo := func(t int64) {
		if t > cur {
			add(lkOp{Op: "adv", DT: int(t - cur)})
		}
	}
	spendOp := func(mode string) lkOp {
		op := lkOp{Op: lkSpendNames[r.Intn(len(lkSpendNames))], Mode: mode}
		if in.Erc20 && r.Chance(30) {
			op = lkOp{Op: "convertcoin", Mode: mode}
		}
		return op
	}
	for k := r.Intn(4); k > 0; k-- {
		add(lkGenOp(r, &in, scale))
	}
	rounds := 1 + r.Intn(2)
	for round := 0; round < rounds; round++ {
		// where in the schedule the conversion is requested
		lo, hi := vestEnd, lockEnd
		if lo > hi {
			lo, hi = hi, lo
		}
		var target int64
		switch r.Intn(8) {
		case 0:
			target = lo - 1 - int64(r.Intn(50)) // before both ends
		case 1:
			target = lo // exactly at the first end
		case 2, 3, 4:
			target = lo + 1 + int64(r.Intn(int(hi-lo)+1))/2 // between the two ends (inside the lock-up when vesting ends first)
		case 5:
			target = hi - 1
		case 6:
			target = hi
		default:
			target = hi + 1 + int64(r.Intn(500))
		}
		advTo(target)
		// how much of the locked-up amount is delegated
		switch r.Intn(6) {
		case 0:
		case 1:
			add(lkOp{Op: lkDelegNames[r.Intn(3)], Mode: "half"})
		case 2:
			add(lkOp{Op: lkDelegNames[r.Intn(3)], Mode: "dg-1"})
		default:
			add(lkOp{Op: lkDelegNames[r.Intn(3)], Mode: "dg"})
		}
		// what happened before the conversion
		if r.Chance(25) {
			add(lkOp{Op: "undelegate", Mode: []string{"half", "one", "sp"}[r.Intn(3)]}) // in flight
		}
		if r.Chance(12) {
			add(lkOp{Op: "clawback", Who: lkWho(r, 15)})
		}
		if r.Chance(12) {
			s := lkGenSched(r, -1500, 1500, scale)
			add(lkOp{Op: "grant", Sched: &s, Who: lkWho(r, 10)})
		}
		if r.Chance(8) {
			add(lkOp{Op: "slash", Frac: []string{"10000000000000000", "500000000000000000"}[r.Intn(2)]})
		}
		if r.Chance(10) {
			add(lkOp{Op: "updatefunder", Who: "", To: "F2"})
		}
		if r.Chance(30) {
			add(spendOp([]string{"sp", "sp+1", "half"}[r.Intn(3)]))
		}
		add(lkOp{Op: "convert"})
		// the later life of the coins
		if r.Chance(30) {
			add(spendOp([]string{"sp", "sp+1"}[r.Intn(2)]))
		}
		if r.Chance(85) {
			add(lkOp{Op: "undelegate", Mode: []string{"sp", "sp", "half"}[r.Intn(3)]})
			add(lkOp{Op: "endblock", DT: []int{350, 350, 100, 900}[r.Intn(4)]})
		}
		for k := 1 + r.Intn(3); k > 0; k-- {
			add(spendOp([]string{"sp+1", "sp", "sp+1", "one"}[r.Intn(4)]))
		}
		if r.Chance(30) {
			add(lkOp{Op: lkDelegNames[r.Intn(3)], Mode: []string{"dg", "dg+1"}[r.Intn(2)]})
		}
		if r.Chance(25) {
			add(lkOp{Op: "convert"}) // a second request (the account may be plain by now)
		}
		if r.Chance(15) {
			add(lkOp{Op: "clawback", Who: lkWho(r, 30)})
		}
		if r.Chance(45) {
			// a vesting account again (or a merge when the conversion was refused); the next round follows this schedule
			s := lkGenSched(r, int(cur)-1500, int(cur)+100, scale)
			add(lkOp{Op: "into", Sched: &s, Who: lkWho(r, 20), Merge: r.Chance(35), Stake: r.Chance(40)})
			vestEnd, lockEnd = lkEnds(s)
			add(spendOp("sp+1"))
			add(lkOp{Op: lkDelegNames[r.Intn(3)], Mode: "dg+1"})
			if r.Chance(50) {
				s2 := lkGenSched(r, int(cur)-1500, int(cur)+1500, scale)
				add(lkOp{Op: "grant", Sched: &s2, Who: lkWho(r, 20)})
			}
		}
		for k := r.Intn(3); k > 0; k-- {
			add(lkGenOp(r, &in, scale))
		}
	}
	return in
}

// Histories around MsgConvertIntoVestingAccount{Stake}: the auto-stake delegates through the staking KEEPER, not
// through the staking message server, so Haqq's unvested-coins guard is not on that path and the amount is what
// the vesting module computes.  An account (created by MsgCreateClawbackVestingAccount, converted from an
// EthAccount with or without earlier delegations, or created by the message itself on a fresh address, with or
// without the stake option) whose first grant started in the past; the block time is steered into / behind that
// grant's schedule; the coins the earlier grants have vested are left alone / spent / half spent / delegated /
// delegated and unbonding / unbonded again and spent; then the funder adds a grant that is not, partly or fully
// vested at that moment, with and without Merge and Stake; then the funder's clawback, spends at spendable and
// spendable+1, delegations at delegatable+1, undelegation, unbonding maturity, a conversion to a plain account and
// a stake message onto the plain account, and a second round on top of the merged schedule.
func lkGenStake(r *Rng) lkInput {
	scale := []int{12, 40, 64, 90}[r.Intn(4)]
	in := lkInput{Create: []string{"create", "create", "convert", "new"}[r.Intn(4)], Sched: lkGenSched(r, -4000, -100, scale), Extra: [2]string{"0", "0"}}
	if in.Create != "create" && r.Chance(50) {
		in.Stake = true
	}
	if in.Create == "convert" && r.Chance(40) {
		x := r.Big(scale)
		in.PreDeleg = x.Add(x, big.NewInt(1)).String()
	}
	if r.Chance(30) {
		in.Extra[0] = r.Big(scale).String()
	}
	if r.Chance(15) {
		in.Extra[1] = r.Big(40).String()
	}
	vestEnd, lockEnd := lkEnds(in.Sched)
	cur := int64(0)
	add := func(op lkOp) {
		if op.Op == "adv" || op.Op == "endblock" {
			cur += int64(op.DT)
		}
		in.Ops = append(in.Ops, op)
	}
	advTo := func(t int64) {
		if t > cur {
			add(lkOp{Op: "adv", DT: int(t - cur)})
		}
	}
	spendOp := func(mode string) lkOp { return lkOp{Op: lkSpendNames[r.Intn(len(lkSpendNames))], Mode: mode} }
	delegOp := func(mode string) lkOp { return lkOp{Op: lkDelegNames[r.Intn(3)], Mode: mode} }
	rounds := 1 + r.Intn(2)
	for round := 0; round < rounds; round++ {
		// where in the schedule of the earlier grants the new grant arrives
		lo, hi := vestEnd, lockEnd
		if lo > hi {
			lo, hi = hi, lo
		}
		switch r.Intn(6) {
		case 0: // at once
		case 1:
			advTo(lo)
		case 2:
			advTo(lo + 1 + int64(r.Intn(int(hi-lo)+1))/2)
		case 3, 4:
			advTo(hi + 1 + int64(r.Intn(300))) // everything vested and unlocked
		default:
			advTo(cur + int64([]int{1, 100, 700}[r.Intn(3)]))
		}
		// what became of the coins the earlier grants have vested
		switch r.Intn(8) {
		case 0:
		case 1, 2:
			add(spendOp("sp"))
		case 3:
			add(spendOp("half"))
		case 4:
			add(delegOp("dg"))
		case 5:
			add(delegOp([]string{"dg", "half"}[r.Intn(2)]))
			add(lkOp{Op: "undelegate", Mode: []string{"sp", "half"}[r.Intn(2)]}) // unbonding in flight
			if r.Chance(50) {
				add(spendOp("sp"))
			}
		case 6:
			add(delegOp("dg"))
			add(lkOp{Op: "undelegate", Mode: "sp"})
			add(lkOp{Op: "endblock", DT: 350}) // unbonded: the coins are back in the balance
			add(spendOp([]string{"sp", "half"}[r.Intn(2)]))
		default:
			add(delegOp("half"))
			add(spendOp("sp"))
		}
		if r.Chance(5) {
			add(lkOp{Op: "slash", Frac: "100000000000000000"})
		}
		// the new grant: not / partly / fully vested at the block time; a deposit of the same or a larger size
		gs := scale
		if scale < 90 && r.Chance(50) {
			gs += 1 + r.Intn(3)
		}
		var s lkSched
		switch r.Intn(8) {
		case 0:
			s = lkGenSched(r, int(cur)+1, int(cur)+300, gs) // nothing vested: the stake part refuses the message
		case 1:
			s = lkGenSched(r, int(cur)-9000, int(cur)-6500, gs) // fully vested
		default:
			s = lkGenSched(r, int(cur)-1500, int(cur)-1, gs)
		}
		add(lkOp{Op: "into", Sched: &s, Who: lkWho(r, 8), Merge: r.Chance(88), Stake: r.Chance(90)})
		ve, le := lkEnds(s)
		if ve > vestEnd {
			vestEnd = ve
		}
		if le > lockEnd {
			lockEnd = le
		}
		// afterwards
		if r.Chance(45) {
			add(lkOp{Op: "clawback", Who: lkWho(r, 10)})
		}
		add(spendOp("sp+1"))
		add(delegOp("dg+1"))
		if r.Chance(40) {
			add(lkOp{Op: "undelegate", Mode: []string{"sp", "half", "one"}[r.Intn(3)]})
			add(lkOp{Op: "endblock", DT: []int{350, 100}[r.Intn(2)]})
		}
		if r.Chance(30) {
			add(lkOp{Op: "adv", DT: []int{10, 400, 2500}[r.Intn(3)]})
		}
		add(spendOp([]string{"sp", "sp+1"}[r.Intn(2)]))
		if r.Chance(25) {
			// a plain account (when the schedule is done), then the stake message onto it
			end := vestEnd
			if lockEnd > end {
				end = lockEnd
			}
			advTo(end - 1 + int64(r.Intn(3))) // just before / at / after the end of the merged schedule
			add(lkOp{Op: "convert"})
			if r.Chance(50) {
				add(spendOp("half"))
			}
			s2 := lkGenSched(r, int(cur)-1500, int(cur)+50, gs)
			add(lkOp{Op: "into", Sched: &s2, Who: lkWho(r, 30), Merge: r.Chance(30), Stake: r.Chance(85)})
			vestEnd, lockEnd = lkEnds(s2)
			add(spendOp("sp+1"))
			add(delegOp("dg+1"))
		}
		for k := r.Intn(3); k > 0; k-- {
			add(lkGenOp(r, &in, scale))
		}
	}
	return in
}

// Histories around validator creation: MsgCreateValidator bonds Value coins of the operator's account, a delegation
// like any other, reachable over the same three routes.  The block time is steered before the start of the
// schedule / inside it / to its vesting end / behind both ends; the account has left its vested coins alone,
// delegated half or all of what it may delegate, spent half or all of what it may spend, has an undelegation in
// flight, or got free coins on top; then the self-bond is requested over one route at delegatable+1 / the whole
// balance (must be refused while anything is unvested) or at delegatable / delegatable-1 / half / one, after a refusal
// again over the other routes; afterwards ordinary delegations at delegatable+1, spends at spendable / spendable+1,
// undelegation of the self-bond, unbonding maturity, the funder's clawback, a later point of the schedule with a new
// attempt, conversion to a plain account and validator creation by the plain account.
func lkGenValidator(r *Rng) lkInput {
	scale := []int{12, 64, 64, 90}[r.Intn(4)]
	in := lkInput{Create: []string{"create", "create", "create", "convert", "new"}[r.Intn(5)], Sched: lkGenSched(r, -1000, 600, scale), Extra: [2]string{"0", "0"}}
	if in.Create == "convert" && r.Chance(40) {
		x := r.Big(scale)
		in.PreDeleg = x.Add(x, big.NewInt(1)).String()
	}
	if r.Chance(35) {
		in.Extra[0] = r.Big(scale).String()
	}
	if r.Chance(15) {
		in.Extra[1] = r.Big(40).String()
	}
	vestEnd, lockEnd := lkEnds(in.Sched)
	cur := int64(0)
	add := func(op lkOp) {
		if op.Op == "adv" || op.Op == "endblock" {
			cur += int64(op.DT)
		}
		in.Ops = append(in.Ops, op)
	}
	advTo := func(t int64) {
		if t > cur {
			add(lkOp{Op: "adv", DT: int(t - cur)})
		}
	}
	spendOp := func(mode string) lkOp { return lkOp{Op: lkSpendNames[r.Intn(len(lkSpendNames))], Mode: mode} }
	delegOp := func(mode string) lkOp { return lkOp{Op: lkDelegNames[r.Intn(3)], Mode: mode} }
	rounds := 1 + r.Intn(2)
	for round := 0; round < rounds; round++ {
		// where in the schedule the validator is created
		lo, hi := vestEnd, lockEnd
		if lo > hi {
			lo, hi = hi, lo
		}
		switch r.Intn(8) {
		case 0: // at once (before the start of the schedule when it starts in the future)
		case 1:
			advTo(in.Sched.Start) // exactly at the start: nothing vested
		case 2, 3, 4:
			if d := vestEnd - in.Sched.Start; d > 0 {
				advTo(in.Sched.Start + 1 + int64(r.Intn(int(d)))) // inside the vesting schedule
			}
		case 5:
			advTo(vestEnd - 1 + int64(r.Intn(2))) // just before / at the vesting end
		case 6:
			advTo(lo + 1 + int64(r.Intn(int(hi-lo)+1))/2) // between the two ends
		default:
			advTo(hi + 1 + int64(r.Intn(300))) // everything vested and unlocked
		}
		// what became of the coins that have vested
		switch r.Intn(8) {
		case 0, 1:
		case 2:
			add(delegOp("half"))
		case 3:
			add(delegOp([]string{"dg", "dg-1"}[r.Intn(2)]))
			if r.Chance(50) {
				add(lkOp{Op: "undelegate", Mode: []string{"half", "sp"}[r.Intn(2)]})
			}
		case 4:
			add(spendOp("half"))
		case 5:
			add(spendOp("sp"))
		case 6:
			add(delegOp("half"))
			add(lkOp{Op: "undelegate", Mode: []string{"half", "sp", "one"}[r.Intn(3)]}) // unbonding in flight
			if r.Chance(40) {
				add(spendOp("half"))
			}
		default:
			a := r.Big(scale)
			add(lkOp{Op: "receive", D: 0, Mode: "abs", Amt: a.Add(a, big.NewInt(1)).String()})
		}
		// the self-bond over the three routes
		routes := []int{0, 1, 2}
		for k := 2; k > 0; k-- {
			j := r.Intn(k + 1)
			routes[k], routes[j] = routes[j], routes[k]
		}
		first := []string{"dg+1", "dg+1", "dg+1", "bal", "dg", "dg", "dg-1", "half", "one"}[r.Intn(9)]
		add(lkOp{Op: lkCreateValNames[routes[0]], Mode: first})
		if first == "dg+1" || first == "bal" {
			add(lkOp{Op: lkCreateValNames[routes[1]], Mode: []string{"dg+1", "bal", "dg", "half"}[r.Intn(4)]})
			add(lkOp{Op: lkCreateValNames[routes[2]], Mode: []string{"dg+1", "dg", "dg", "dg-1"}[r.Intn(4)]})
		} else if r.Chance(30) {
			add(lkOp{Op: lkCreateValNames[routes[1]], Mode: "dg"}) // a second validator of the same operator
		}
		// afterwards
		add(delegOp("dg+1"))
		add(spendOp("sp+1"))
		if r.Chance(40) {
			add(lkOp{Op: "clawback", Who: lkWho(r, 10)})
		}
		if r.Chance(50) {
			add(lkOp{Op: "undelegate", Mode: []string{"sp", "half", "one", "sp-1"}[r.Intn(4)], Own: true})
			add(lkOp{Op: "endblock", DT: []int{350, 350, 100}[r.Intn(3)]})
			add(spendOp([]string{"sp", "sp+1"}[r.Intn(2)]))
		} else if r.Chance(40) {
			add(lkOp{Op: "endblock", DT: []int{1, 100}[r.Intn(2)]}) // the new validator enters the set when its power allows
		}
		if r.Chance(35) {
			add(lkOp{Op: "adv", DT: []int{10, 400, 2500}[r.Intn(3)]})
			add(lkOp{Op: lkCreateValNames[r.Intn(3)], Mode: []string{"dg+1", "dg", "bal"}[r.Intn(3)]})
		}
		if r.Chance(20) {
			s := lkGenSched(r, int(cur)-1500, int(cur)+300, scale)
			add(lkOp{Op: "grant", Sched: &s, Who: lkWho(r, 10)})
			add(lkOp{Op: lkCreateValNames[r.Intn(3)], Mode: "dg+1"})
			ve, le := lkEnds(s)
			if ve > vestEnd {
				vestEnd = ve
			}
			if le > lockEnd {
				lockEnd = le
			}
		}
		add(spendOp([]string{"sp", "sp+1"}[r.Intn(2)]))
		if r.Chance(20) {
			// a plain account (when the schedule is done) creating / topping up its validator
			end := vestEnd
			if lockEnd > end {
				end = lockEnd
			}
			advTo(end - 1 + int64(r.Intn(3)))
			add(lkOp{Op: "convert"})
			add(lkOp{Op: lkCreateValNames[r.Intn(3)], Mode: []string{"dg", "half", "dg+1"}[r.Intn(3)]})
			add(spendOp("sp+1"))
		}
		for k := r.Intn(3); k > 0; k-- {
			add(lkGenOp(r, &in, scale))
		}
	}
	return in
}

func lockedDriver(cfg Config, out *Out) error {
	lkStrict = cfg.Args["strict"] != "0"
	if cfg.Replay != "" {
		i := 0
		return readReplayInputs(cfg.Replay, func(raw json.RawMessage) error {
			var in lkInput
			if err := json.Unmarshal(raw, &in); err != nil {
				return err
			}
			out.Emit(lockedRunCase(fmt.Sprintf("replay-%d", i), in))
			i++
			return nil
		})
	}
	r := NewRng(cfg.Seed)
	for i := 0; i < cfg.N; i++ {
		out.Emit(lockedRunCase(fmt.Sprintf("s%d-%d", cfg.Seed, i), lkGen(r.Fork())))
	}
	return nil
}


// lkRead: a schedule as a step function: the sum of the periods that have ended by t (own reader, independent of the
// implementation's ReadSchedule)
func lkRead(start int64, ps sdkvesting.Periods, t int64) sdk.Coins {
	out := sdk.NewCoins()
	at := start
	for _, p := range ps {
		at += p.Length
		if at <= t {
			out = out.Add(p.Amount...)
		}
	}
	return out
}

// lkMergeAdditive checks, at every event time of the three schedules involved and at the block time (only instants
// strictly after both starts), that the merged account's vesting and lockup schedules release exactly the sum.
func lkMergeAdditive(pre, post *vestingtypes.ClawbackVestingAccount, gStart int64, gLock, gVest sdkvesting.Periods, now int64) string {
	// a message without lockup (vesting) periods means: everything unlocks (vests) at the start
	sum := func(ps sdkvesting.Periods) sdk.Coins {
		t := sdk.NewCoins()
		for _, p := range ps {
			t = t.Add(p.Amount...)
		}
		return t
	}
	if len(gLock) == 0 {
		gLock = sdkvesting.Periods{{Length: 0, Amount: sum(gVest)}}
	}
	if len(gVest) == 0 {
		gVest = sdkvesting.Periods{{Length: 0, Amount: sum(gLock)}}
	}
	after := pre.StartTime.Unix()
	if gStart > after {
		after = gStart
	}
	probes := map[int64]bool{now: true}
	add := func(start int64, ps sdkvesting.Periods) {
		at := start
		for _, p := range ps {
			at += p.Length
			probes[at], probes[at-1], probes[at+1] = true, true, true
		}
	}
	add(pre.StartTime.Unix(), pre.LockupPeriods)
	add(pre.StartTime.Unix(), pre.VestingPeriods)
	add(gStart, gLock)
	add(gStart, gVest)
	var ts []int64
	for t := range probes {
		if t > after {
			ts = append(ts, t)
		}
	}
	sort.Slice(ts, func(i, j int) bool { return ts[i] < ts[j] })
	for _, t := range ts {
		for _, k := range []struct {
			name        string
			a, b, c     sdkvesting.Periods
		}{{"vests", pre.VestingPeriods, gVest, post.VestingPeriods}, {"unlocks", pre.LockupPeriods, gLock, post.LockupPeriods}} {
			want := lkRead(pre.StartTime.Unix(), k.a, t).Add(lkRead(gStart, k.b, t)...)
			got := lkRead(post.StartTime.Unix(), k.c, t)
			if !want.IsEqual(got) {
				return fmt.Sprintf("after the merge the account %s %s by time %d, but the account before (%s) plus the grant as signed (%s) release %s",
					k.name, got, t, lkRead(pre.StartTime.Unix(), k.a, t), lkRead(gStart, k.b, t), want)
			}
		}
	}
	return ""
}
