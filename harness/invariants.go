package main

// Driver "invariants" (property C15): random mixed block histories on a real
// application; after EVERY EndBlock (on the deliver state, before Commit) and
// again after Commit (on the committed store) every invariant route registered
// with the crisis keeper is evaluated individually with panic capture.
// ORACLE: no route reports "broken", no ABCI call panics.

import (
	"encoding/json"
	"fmt"
	"sort"
	"strings"

	sdk "github.com/cosmos/cosmos-sdk/types"
	"github.com/ethereum/go-ethereum/accounts/abi"

	"github.com/haqq-network/haqq/contracts"
)

func init() { register("invariants", invariantsDriver) }

func erc20ABI() abi.ABI { return contracts.ERC20MinterBurnerDecimalsContract.ABI }

type brokenInv struct {
	Height int64  `json:"height"`
	When   string `json:"when"` // after-endblock | after-commit
	Route  string `json:"route"`
	Msg    string `json:"msg"`
}

// checkInvariants runs every registered route on ctx and returns the broken ones.
func checkInvariants(rep *Replica, ctx sdk.Context, height int64, when string) (broken []brokenInv, nroutes int) {
	for _, rt := range rep.App.CrisisKeeper.Routes() {
		nroutes++
		func() {
			defer func() {
				if x := recover(); x != nil {
					broken = append(broken, brokenInv{height, when, rt.FullRoute(), shortLog(fmt.Sprintf("panic: %v", x))})
				}
			}()
			cctx, _ := ctx.CacheContext() // an invariant must not write; make sure it cannot
			if msg, stop := rt.Invar(cctx); stop {
				broken = append(broken, brokenInv{height, when, rt.FullRoute(), shortLog(msg)})
			}
		}()
	}
	return
}

type invObs struct {
	Blocks    int            `json:"blocks"`
	Txs       int            `json:"txs"`
	OKTxs     int            `json:"ok_txs"`
	Routes    int            `json:"routes"`
	RouteList []string       `json:"route_names,omitempty"`
	Checks    int            `json:"invariant_evaluations"`
	Broken    []brokenInv    `json:"broken,omitempty"`
	Panic     string         `json:"panic,omitempty"`
	OKByKind  map[string]int `json:"ok_by_kind"`
	ErrByKind map[string]int `json:"err_by_kind"`
	ErrSample map[string]string `json:"err_sample,omitempty"`
	ValUpd    int            `json:"validator_updates"`
	VmFailed  int            `json:"eth_txs_with_vm_error"`
	Supply    []string       `json:"final_supply"`
	LastHash  string         `json:"last_app_hash"`
}

func summarise(h *histRun, o *invObs) {
	o.OKByKind, o.ErrByKind, o.ErrSample = map[string]int{}, map[string]int{}, map[string]string{}
	for _, b := range h.Blocks {
		o.Blocks++
		o.ValUpd += len(b.ValUpdates)
		for _, t := range b.Txs {
			o.Txs++
			if (t.Direct == "" && t.Code == 0) || t.Direct == "ok" {
				o.OKTxs++
				o.OKByKind[t.Kind]++
			} else {
				o.ErrByKind[t.Kind]++
				if _, ok := o.ErrSample[t.Kind]; !ok {
					o.ErrSample[t.Kind] = t.Direct + " " + t.Log
				}
			}
		}
		o.LastHash = b.AppHash
		if b.Panic != "" {
			o.Panic = fmt.Sprintf("height %d: %s", b.Height, b.Panic)
		}
		for _, t := range b.Txs {
			if t.VmErr != "" {
				o.VmFailed++
			}
		}
	}
}

func invRunCase(id string, in bhInput, gen *bhGenerator) Case {
	h := newHistRun(in.Gen, repOpts{})
	obs := invObs{}
	hooks := &stepHooks{
		AfterEndBlock: func(h *histRun, height int64) {
			br, n := checkInvariants(h.Rep, h.Rep.ctx(), height, "after-endblock")
			obs.Routes = n
			obs.Checks += n
			if obs.RouteList == nil {
				for _, rt := range h.Rep.App.CrisisKeeper.Routes() {
					obs.RouteList = append(obs.RouteList, rt.FullRoute())
				}
			}
			obs.Broken = append(obs.Broken, br...)
		},
		AfterCommit: func(h *histRun, height int64) {
			br, n := checkInvariants(h.Rep, h.Rep.committedCtx(), height, "after-commit")
			obs.Checks += n
			obs.Broken = append(obs.Broken, br...)
		},
	}
	// genesis state itself
	{
		br, n := checkInvariants(h.Rep, h.Rep.ctx(), 0, "after-genesis")
		obs.Checks += n
		obs.Broken = append(obs.Broken, br...)
	}
	for bi := range in.Blocks {
		b := &in.Blocks[bi]
		if gen != nil {
			idx := bi
			hooks.NTx = func(*bhBlock) int { return gen.ntx(idx) }
			hooks.GenTx = func(h *histRun, b *bhBlock, i int) *bhTx { return gen.genTx(h, b, idx, i) }
		}
		h.runBlock(b, nil, hooks)
		if h.Dead != "" || len(obs.Broken) > 0 {
			in.Blocks = in.Blocks[:bi+1]
			break
		}
	}
	summarise(h, &obs)
	if h.Dead == "" {
		ctx := h.Rep.committedCtx()
		h.Rep.App.BankKeeper.IterateTotalSupply(ctx, func(c sdk.Coin) bool {
			obs.Supply = append(obs.Supply, c.String())
			return false
		})
	}
	c := Case{ID: id, Kind: "history", Input: in, Obs: obs}
	c.OracleOK = len(obs.Broken) == 0 && obs.Panic == ""
	if !c.OracleOK {
		if len(obs.Broken) > 0 {
			b := obs.Broken[0]
			c.OracleMsg = fmt.Sprintf("invariant %s broken at height %d (%s): %s", b.Route, b.Height, b.When, b.Msg)
		} else {
			c.OracleMsg = "the chain halted: " + obs.Panic
		}
	}
	c.Class = invClass(in, obs)
	okKinds := []string{}
	for k := range obs.OKByKind {
		okKinds = append(okKinds, k)
	}
	sort.Strings(okKinds)
	c.Nontrivial = obs.OKTxs >= 5 && len(okKinds) >= 3
	kb, _ := json.Marshal(in)
	c.Key = string(kb)
	for _, k := range okKinds {
		c.Tags = append(c.Tags, "ok:"+k)
	}
	for k := range obs.ErrByKind {
		c.Tags = append(c.Tags, "rejected:"+k)
	}
	if obs.ValUpd > 0 {
		c.Tags = append(c.Tags, "validator-set-changed")
	}
	for _, b := range in.Blocks {
		if len(b.Evidence) > 0 {
			c.Tags = append(c.Tags, "double-sign-evidence")
		}
		if len(b.Absent) > 0 {
			c.Tags = append(c.Tags, "absent-validator")
			break
		}
	}
	sort.Strings(c.Tags)
	return c
}

// invClass: no known-finding class exists for C15 (the precompile defects K3-K9 change the supply through the
// bank and leave every registered invariant intact), so every failing history is reported as a violation.
func invClass(in bhInput, o invObs) string { return "" }

func invariantsDriver(cfg Config, out *Out) error {
	if cfg.Replay != "" {
		i := 0
		return readReplayInputs(cfg.Replay, func(raw json.RawMessage) error {
			var in bhInput
			if err := json.Unmarshal(raw, &in); err != nil {
				return err
			}
			out.Emit(invRunCase(fmt.Sprintf("replay-%d", i), in, nil))
			i++
			return nil
		})
	}
	r := NewRng(cfg.Seed)
	nb := 15
	if cfg.Tier == "thorough" {
		nb = 40
	}
	if v := cfg.Args["blocks"]; v != "" {
		fmt.Sscan(v, &nb)
	}
	for i := 0; i < cfg.N; i++ {
		cr := r.Fork()
		focus := cfg.Args["focus"]
		if focus == "" && cr.Chance(50) {
			fs := []string{"x/evm", "precompiles", "x/liquidvesting", "x/vesting", "x/erc20", "x/ucdao", "x/bank"}
			focus = fs[cr.Intn(len(fs))]
		}
		g := newBhGenerator(cr, nb, focus)
		in := bhInput{Gen: g.genesis(), Focus: focus}
		for b := 0; b < nb; b++ {
			in.Blocks = append(in.Blocks, g.block(b))
		}
		c := invRunCase(fmt.Sprintf("s%d-%d", cfg.Seed, i), in, g)
		out.Emit(c)
	}
	return nil
}

var _ = strings.Join
