package main

// Driver "invariants" (property C15): random mixed block histories on a real
// application; after EVERY EndBlock (on the deliver state, before Commit) and
// again after Commit (on the committed store) every invariant route registered
// with the crisis keeper is evaluated individually with panic capture.
// ORACLE: no route reports "broken", no ABCI call panics.
// The histories deposit and fund the community pool in several denominations and let proposals end
// vetoed / without quorum / below the minimum deposit with the burn switches on, so that the redirected
// burn (x/bank BurnCoins: gov deposits go to the distribution account AND the community pool) meets coin
// lists; which proposals ended how and which denominations were new to the pool is recorded per case.

import (
	"encoding/json"
	"fmt"
	"sort"
	"strings"

	sdkmath "cosmossdk.io/math"
	sdk "github.com/cosmos/cosmos-sdk/types"
	authtypes "github.com/cosmos/cosmos-sdk/x/auth/types"
	govv1 "github.com/cosmos/cosmos-sdk/x/gov/types/v1"
	"github.com/ethereum/go-ethereum/accounts/abi"

	"github.com/haqq-network/haqq/contracts"
	"github.com/haqq-network/haqq/utils"
)

func init() { register("invariants", invariantsDriver) }

func erc20ABI() abi.ABI { return contracts.ERC20MinterBurnerDecimalsContract.ABI }

type brokenInv struct {
	Height int64  `json:"height"`
	When   string `json:"when"` // after-endblock | after-commit
	Route  string `json:"route"`
	Msg    string `json:"msg"`
}

// checkInvariants runs every registered route on ctx and returns the broken ones.
func checkInvariants(rep *Replica, ctx sdk.Context, height int64, when string) (broken []brokenInv, nroutes int) {
	for _, rt := range rep.App.CrisisKeeper.Routes() {
		nroutes++
		func() {
			defer func() {
				if x := recover(); x != nil {
					broken = append(broken, brokenInv{height, when, rt.FullRoute(), shortLog(fmt.Sprintf("panic: %v", x))})
				}
			}()
			cctx, _ := ctx.CacheContext() // an invariant must not write; make sure it cannot
			if msg, stop := rt.Invar(cctx); stop {
				broken = append(broken, brokenInv{height, when, rt.FullRoute(), shortLog(msg)})
			}
		}()
	}
	return
}

type invObs struct {
	Blocks    int            `json:"blocks"`
	Txs       int            `json:"txs"`
	OKTxs     int            `json:"ok_txs"`
	Routes    int            `json:"routes"`
	RouteList []string       `json:"route_names,omitempty"`
	Checks    int            `json:"invariant_evaluations"`
	Broken    []brokenInv    `json:"broken,omitempty"`
	Credited  []string       `json:"blocked_address_credited_by_user_tx,omitempty"` // accepted transactions that paid a module account / precompile address from outside
	Params    []string       `json:"parameter_changes,omitempty"`                   // "height h: module key=value ... -> ok / error"
	ToBlocked map[string]int `json:"txs_naming_blocked_recipient,omitempty"`         // kind:recipient:accepted|rejected -> count
	Panic     string         `json:"panic,omitempty"`
	OKByKind  map[string]int `json:"ok_by_kind"`
	ErrByKind map[string]int `json:"err_by_kind"`
	ErrSample map[string]string `json:"err_sample,omitempty"`
	GovEnds   map[string]int `json:"gov_proposals_ended,omitempty"` // outcome (+ what happened to the deposit) -> count
	Burned    []string       `json:"gov_deposits_burned,omitempty"` // "height h proposal p (outcome): coins", redirected to the community pool
	PoolNew   []string       `json:"community_pool_new_denoms,omitempty"`
	ValUpd    int            `json:"validator_updates"`
	VmFailed  int            `json:"eth_txs_with_vm_error"`
	Supply    []string       `json:"final_supply"`
	LastHash  string         `json:"last_app_hash"`
}

func summarise(h *histRun, o *invObs) {
	o.OKByKind, o.ErrByKind, o.ErrSample = map[string]int{}, map[string]int{}, map[string]string{}
	for _, b := range h.Blocks {
		o.Blocks++
		o.ValUpd += len(b.ValUpdates)
		for _, t := range b.Txs {
			o.Txs++
			if (t.Direct == "" && t.Code == 0) || t.Direct == "ok" {
				o.OKTxs++
				o.OKByKind[t.Kind]++
			} else {
				o.ErrByKind[t.Kind]++
				if _, ok := o.ErrSample[t.Kind]; !ok {
					o.ErrSample[t.Kind] = t.Direct + " " + t.Log
				}
			}
		}
		o.LastHash = b.AppHash
		if b.Panic != "" {
			o.Panic = fmt.Sprintf("height %d: %s", b.Height, b.Panic)
		}
		for _, t := range b.Txs {
			if t.VmErr != "" {
				o.VmFailed++
			}
		}
	}
}

// govEnding classifies, on a branch of the deliver state just before the EndBlockers run, the proposals
// whose deposit or voting period ends in this block: outcome and whether the deposit is burned (on Haqq:
// redirected to the community pool) or refunded.  Only used to describe the history (tags, observation).
func govEnding(rep *Replica, height int64, obs *invObs, tags map[string]bool) {
	defer func() { _ = recover() }()
	a := rep.App
	ctx, _ := rep.ctx().CacheContext()
	now := ctx.BlockHeader().Time
	params := a.GovKeeper.GetParams(ctx)
	note := func(p govv1.Proposal, outcome string, burn bool) {
		what := "refunded"
		if burn {
			what = "burned"
		}
		dep := sdk.NewCoins(p.TotalDeposit...)
		key := outcome + ":deposit-" + what
		obs.GovEnds[key]++
		tags["gov-end:"+key] = true
		if burn && !dep.IsZero() {
			obs.Burned = append(obs.Burned, fmt.Sprintf("height %d proposal %d (%s): %s", height, p.Id, outcome, dep))
			if len(dep) > 1 {
				tags["gov-deposit-burned:several-denominations"] = true
			}
			if len(dep) > 0 && dep.AmountOf(bondDenomOf(rep, ctx)).IsZero() {
				tags["gov-deposit-burned:without-native-coin"] = true
			}
			if len(dep) == 1 && !dep.AmountOf(bondDenomOf(rep, ctx)).IsZero() {
				tags["gov-deposit-burned:native-coin-only"] = true
			}
		}
	}
	a.GovKeeper.IterateInactiveProposalsQueue(ctx, now, func(p govv1.Proposal) bool {
		note(p, "dropped", params.BurnProposalDepositPrevote)
		return false
	})
	var active []govv1.Proposal
	a.GovKeeper.IterateActiveProposalsQueue(ctx, now, func(p govv1.Proposal) bool {
		active = append(active, p)
		return false
	})
	bonded := a.StakingKeeper.TotalBondedTokens(ctx)
	for _, p := range active {
		passes, burn, tr := a.GovKeeper.Tally(ctx, p)
		outcome := "rejected"
		total := sdkmath.ZeroInt()
		for _, c := range []string{tr.YesCount, tr.AbstainCount, tr.NoCount, tr.NoWithVetoCount} {
			total = total.Add(intA(c))
		}
		quorum, _ := sdk.NewDecFromStr(params.Quorum)
		veto, _ := sdk.NewDecFromStr(params.VetoThreshold)
		switch {
		case passes:
			outcome = "passed"
		case bonded.IsZero() || sdk.NewDecFromInt(total).Quo(sdk.NewDecFromInt(bonded)).LT(quorum):
			outcome = "no-quorum"
		case total.Equal(intA(tr.AbstainCount)):
			outcome = "rejected"
		case sdk.NewDecFromInt(intA(tr.NoWithVetoCount)).Quo(sdk.NewDecFromInt(total)).GT(veto):
			outcome = "vetoed"
		}
		note(p, outcome, burn)
	}
}

func bondDenomOf(rep *Replica, ctx sdk.Context) string { return rep.App.StakingKeeper.BondDenom(ctx) }

// newPoolDenoms: where the denominations that entered the community pool sort among those it held.
func newPoolDenoms(before, after sdk.DecCoins) []string {
	var out []string
	for _, c := range after {
		if !before.AmountOf(c.Denom).IsZero() || c.Amount.IsZero() {
			continue
		}
		lower, higher := 0, 0
		for _, b := range before {
			if b.Denom < c.Denom {
				lower++
			} else {
				higher++
			}
		}
		where := "between"
		switch {
		case len(before) == 0:
			where = "first"
		case lower == 0:
			where = "before"
		case higher == 0:
			where = "after"
		}
		out = append(out, where)
	}
	return out
}

func invRunCase(id string, in bhInput, gen *bhGenerator) Case {
	h := newHistRun(in.Gen, repOpts{})
	obs := invObs{GovEnds: map[string]int{}, ToBlocked: map[string]int{}}
	xtags := map[string]bool{}
	var poolBefore sdk.DecCoins
	var hist []string // the operations the model has a rule for, as Coq terms (Bank/InvariantModel.v, hcase)
	var before []sdk.Coins
	curHeight, txNo := int64(-1), 0 // position of the transaction in its block (for the oracle message)
	paramsNow := map[string]string{} // module.key -> last accepted value (to make the oracle message readable)
	hooks := &stepHooks{
		BeforeTx: func(h *histRun, height int64, t *bhTx) {
			if height != curHeight {
				curHeight, txNo = height, 0
			} else {
				txNo++
			}
			before = before[:0]
			for _, i := range namedBlocked(*t) {
				before = append(before, h.Rep.App.BankKeeper.GetAllBalances(h.Rep.ctx(), sdk.AccAddress(actorAddr(i).Bytes())))
			}
		},
		AfterTx: func(h *histRun, height int64, t *bhTx, tr *txResult) {
			accepted := (tr.Direct == "" && tr.Code == 0 && tr.VmErr == "") || tr.Direct == "ok"
			if c := histCoq(*t, accepted); c != "" {
				hist = append(hist, c)
			}
			if t.K == "param" {
				var kvs []string
				for _, kv := range t.X {
					kvs = append(kvs, kv[0]+"="+kv[1])
					if accepted {
						paramsNow[t.S+"."+kv[0]] = kv[1]
					}
				}
				obs.Params = append(obs.Params, fmt.Sprintf("height %d: %s %s -> %s", height, t.S, strings.Join(kvs, " "), tr.Direct))
				xtags["param:"+t.S+":"+map[bool]string{true: "ok", false: "rejected"}[accepted]] = true
				return
			}
			// ORACLE (the mechanism the accounting invariants rest on): a user transaction that names a blocked
			// address as recipient must not be accepted with coins arriving there.  The fee collector also receives
			// the fee of every transaction, so for it only the denominations other than the fee coin are compared,
			// and an accepted plain (multi-)send of a positive amount to it is reported as such.
			for n, i := range namedBlocked(*t) {
				addr := sdk.AccAddress(actorAddr(i).Bytes())
				if n >= len(before) || !h.Rep.App.BankKeeper.BlockedAddr(addr) {
					continue
				}
				name := blockedName(i)
				obs.ToBlocked[fmt.Sprintf("%s:%s:%s", t.K, name, map[bool]string{true: "accepted", false: "rejected"}[accepted])]++
				xtags["to-blocked:"+t.K] = true
				if tr.Direct != "" || tr.Code != 0 {
					continue
				}
				after := h.Rep.App.BankKeeper.GetAllBalances(h.Rep.ctx(), addr)
				var gained sdk.Coins
				for _, c := range after {
					if name == authtypes.FeeCollectorName && c.Denom == utils.BaseDenom {
						continue
					}
					if d := c.Amount.Sub(before[n].AmountOf(c.Denom)); d.IsPositive() {
						gained = append(gained, sdk.NewCoin(c.Denom, d))
					}
				}
				plain := (t.K == "send" || t.K == "multisend") && name == authtypes.FeeCollectorName && accepted
				if len(gained) > 0 || plain {
					var ps []string
					for k, v := range paramsNow {
						ps = append(ps, k+"="+v)
					}
					sort.Strings(ps)
					what := "credited it with " + gained.String()
					if len(gained) == 0 {
						what = "paid it " + t.A + t.D + " (besides the fee)"
					}
					obs.Credited = append(obs.Credited, fmt.Sprintf("height %d tx %d: %s signed by U%d naming the blocked address %s (%s) as recipient was ACCEPTED and %s (parameters changed so far: %s)",
						height, txNo, t.K, ((t.F%bhNU)+bhNU)%bhNU, name, addr, what, strings.Join(ps, " ")))
				}
			}
		},
		BeforeEndBlock: func(h *histRun, height int64) {
			poolBefore = h.Rep.App.DistrKeeper.GetFeePoolCommunityCoins(h.Rep.ctx())
			govEnding(h.Rep, height, &obs, xtags)
		},
		AfterEndBlock: func(h *histRun, height int64) {
			// the only EndBlocker that adds to the community pool is governance burning deposits (redirected burn)
			for _, w := range newPoolDenoms(poolBefore, h.Rep.App.DistrKeeper.GetFeePoolCommunityCoins(h.Rep.ctx())) {
				obs.PoolNew = append(obs.PoolNew, fmt.Sprintf("height %d: redirected burn of a denomination new to the pool, sorts %s", height, w))
				xtags["redirected-burn:new-pool-denom-sorts-"+w] = true
			}
			br, n := checkInvariants(h.Rep, h.Rep.ctx(), height, "after-endblock")
			obs.Routes = n
			obs.Checks += n
			if obs.RouteList == nil {
				for _, rt := range h.Rep.App.CrisisKeeper.Routes() {
					obs.RouteList = append(obs.RouteList, rt.FullRoute())
				}
			}
			obs.Broken = append(obs.Broken, br...)
		},
		AfterCommit: func(h *histRun, height int64) {
			br, n := checkInvariants(h.Rep, h.Rep.committedCtx(), height, "after-commit")
			obs.Checks += n
			obs.Broken = append(obs.Broken, br...)
		},
	}
	// genesis state itself
	{
		br, n := checkInvariants(h.Rep, h.Rep.ctx(), 0, "after-genesis")
		obs.Checks += n
		obs.Broken = append(obs.Broken, br...)
	}
	for bi := range in.Blocks {
		b := &in.Blocks[bi]
		if gen != nil {
			idx := bi
			hooks.NTx = func(*bhBlock) int { return gen.ntx(idx) }
			hooks.GenTx = func(h *histRun, b *bhBlock, i int) *bhTx { return gen.genTx(h, b, idx, i) }
		}
		h.runBlock(b, nil, hooks)
		if h.Dead != "" || len(obs.Broken) > 0 || len(obs.Credited) > 0 {
			in.Blocks = in.Blocks[:bi+1]
			break
		}
	}
	summarise(h, &obs)
	if h.Dead == "" {
		ctx := h.Rep.committedCtx()
		h.Rep.App.BankKeeper.IterateTotalSupply(ctx, func(c sdk.Coin) bool {
			obs.Supply = append(obs.Supply, c.String())
			return false
		})
	}
	c := Case{ID: id, Kind: "history", Input: in, Obs: obs}
	c.Coq, c.CoqList = coqList(hist), "hist"
	c.OracleOK = len(obs.Broken) == 0 && obs.Panic == "" && len(obs.Credited) == 0
	if !c.OracleOK {
		if len(obs.Credited) > 0 {
			c.OracleMsg = obs.Credited[0]
			if len(obs.Broken) > 0 {
				b := obs.Broken[0]
				c.OracleMsg += fmt.Sprintf("; then invariant %s broken at height %d (%s): %s", b.Route, b.Height, b.When, b.Msg)
			}
		} else if len(obs.Broken) > 0 {
			b := obs.Broken[0]
			c.OracleMsg = fmt.Sprintf("invariant %s broken at height %d (%s): %s", b.Route, b.Height, b.When, b.Msg)
		} else {
			c.OracleMsg = "the chain halted: " + obs.Panic
		}
	}
	c.Class = invClass(in, obs)
	okKinds := []string{}
	for k := range obs.OKByKind {
		okKinds = append(okKinds, k)
	}
	sort.Strings(okKinds)
	c.Nontrivial = obs.OKTxs >= 5 && len(okKinds) >= 3
	kb, _ := json.Marshal(in)
	c.Key = string(kb)
	for _, k := range okKinds {
		c.Tags = append(c.Tags, "ok:"+k)
	}
	for k := range obs.ErrByKind {
		c.Tags = append(c.Tags, "rejected:"+k)
	}
	if obs.ValUpd > 0 {
		c.Tags = append(c.Tags, "validator-set-changed")
	}
	for t := range xtags {
		c.Tags = append(c.Tags, t)
	}
	if f := in.Gen.Fee; f == nil {
		c.Tags = append(c.Tags, "fee-regime:default")
	} else {
		c.Tags = append(c.Tags, "fee-regime:given", fmt.Sprintf("fee-regime:block-max-gas-finite=%v", f.MaxGas >= 0))
	}
	if len(in.Gen.MinDep) > 0 {
		c.Tags = append(c.Tags, "gov-min-deposit:several-denominations")
	}
	for _, b := range in.Blocks {
		if len(b.Evidence) > 0 {
			c.Tags = append(c.Tags, "double-sign-evidence")
		}
		if len(b.Absent) > 0 {
			c.Tags = append(c.Tags, "absent-validator")
			break
		}
	}
	sort.Strings(c.Tags)
	return c
}

// classTornPrecompile is the known-finding class K17 (root cause of K3: a stateful precompile call that fails does
// not roll back what it already did on the Cosmos side; when the failure is an out-of-gas in the MIDDLE of the
// message, e.g. between the two halves of a reward withdrawal, the distribution records are left torn).
const classTornPrecompile = "evm:failed-precompile-call-leaves-torn-distribution-state"

// bhToleratedPrecompileShape: some Ethereum script transaction of the history contains a stateful precompile call
// whose failure is tolerated, by the call itself or by an enclosing frame (a predicate on the input only).
func bhToleratedPrecompileShape(in bhInput) bool {
	var walk func(body []bhInstr, tolerated bool) bool
	walk = func(body []bhInstr, tolerated bool) bool {
		for _, ins := range body {
			switch ins.Op {
			case "pcall":
				if tolerated || ins.Catch {
					return true
				}
			case "call":
				if walk(ins.B, tolerated || ins.Catch) {
					return true
				}
			}
		}
		return false
	}
	for _, b := range in.Blocks {
		for _, t := range b.Txs {
			if t.K == "ethcall" && walk(t.B, false) {
				return true
			}
		}
	}
	return false
}

// invClass: the only known-finding class of C15 is K17; it is attributed only when the history has the shape above,
// the broken routes are the distribution module's reward bookkeeping (can-withdraw / reference-count) and nothing
// else is wrong (no blocked address credited, no other route); anything else is reported as a violation.
func invClass(in bhInput, o invObs) string {
	if len(o.Broken) == 0 || len(o.Credited) > 0 || !bhToleratedPrecompileShape(in) {
		return ""
	}
	for _, b := range o.Broken {
		if b.Route != "distribution/can-withdraw" && b.Route != "distribution/reference-count" {
			return ""
		}
	}
	return classTornPrecompile
}

func invariantsDriver(cfg Config, out *Out) error {
	if cfg.Replay != "" {
		i := 0
		return readReplayInputs(cfg.Replay, func(raw json.RawMessage) error {
			var in bhInput
			if err := json.Unmarshal(raw, &in); err != nil {
				return err
			}
			out.Emit(invRunCase(fmt.Sprintf("replay-%d", i), in, nil))
			i++
			return nil
		})
	}
	r := NewRng(cfg.Seed)
	nb := 15
	if cfg.Tier == "thorough" {
		nb = 40
	}
	if v := cfg.Args["blocks"]; v != "" {
		fmt.Sscan(v, &nb)
	}
	for i := 0; i < cfg.N; i++ {
		cr := r.Fork()
		focus := cfg.Args["focus"]
		if focus == "" && cr.Chance(50) {
			fs := []string{"x/evm", "precompiles", "x/liquidvesting", "x/vesting", "x/erc20", "x/ucdao", "x/bank"}
			focus = fs[cr.Intn(len(fs))]
		}
		g := newBhGenerator(cr, nb, focus)
		in := bhInput{Gen: g.genesis(), Focus: focus}
		for b := 0; b < nb; b++ {
			in.Blocks = append(in.Blocks, g.block(b))
		}
		c := invRunCase(fmt.Sprintf("s%d-%d", cfg.Seed, i), in, g)
		out.Emit(c)
	}
	return nil
}

var _ = strings.Join
