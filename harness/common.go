package main

import (
	"fmt"
	"math/big"
	"strings"
	"time"

	abci "github.com/cometbft/cometbft/abci/types"
	tmproto "github.com/cometbft/cometbft/proto/tendermint/types"
	sdk "github.com/cosmos/cosmos-sdk/types"

	"github.com/haqq-network/haqq/app"
	"github.com/haqq-network/haqq/utils"
)

// ---------------------------------------------------------------- PRNG
// splitmix64: every random choice of a run derives from one state.
type Rng struct{ s uint64 }

func NewRng(seed uint64) *Rng { return &Rng{s: seed*0x9E3779B97F4A7C15 + 0x1234567} }
func (r *Rng) U64() uint64 {
	r.s += 0x9E3779B97F4A7C15
	z := r.s
	z = (z ^ (z >> 30)) * 0xBF58476D1CE4E5B9
	z = (z ^ (z >> 27)) * 0x94D049BB133111EB
	return z ^ (z >> 31)
}
func (r *Rng) Intn(n int) int {
	if n <= 0 {
		return 0
	}
	return int(r.U64() % uint64(n))
}
func (r *Rng) Bool() bool        { return r.U64()&1 == 1 }
func (r *Rng) Chance(p int) bool { return r.Intn(100) < p } // p percent
func (r *Rng) Fork() *Rng        { return NewRng(r.U64()) }

// Big returns a non-negative integer with up to maxBits bits, biased to small
// values and to boundary shapes (2^k, 2^k-1).
func (r *Rng) Big(maxBits int) *big.Int {
	bits := 1 + r.Intn(maxBits)
	switch r.Intn(6) {
	case 0:
		return big.NewInt(int64(r.Intn(10)))
	case 1:
		return new(big.Int).Lsh(big.NewInt(1), uint(bits-1))
	case 2:
		x := new(big.Int).Lsh(big.NewInt(1), uint(bits))
		return x.Sub(x, big.NewInt(1))
	}
	x := new(big.Int)
	for i := 0; i < (bits+63)/64; i++ {
		x.Lsh(x, 64)
		x.Or(x, new(big.Int).SetUint64(r.U64()))
	}
	m := new(big.Int).Lsh(big.NewInt(1), uint(bits))
	return x.Mod(x, m)
}

// Below returns a uniform integer in [0, n) (n > 0).
func (r *Rng) Below(n *big.Int) *big.Int {
	if n.Sign() <= 0 {
		return big.NewInt(0)
	}
	x := new(big.Int)
	for i := 0; i < (n.BitLen()+127)/64; i++ {
		x.Lsh(x, 64)
		x.Or(x, new(big.Int).SetUint64(r.U64()))
	}
	return x.Mod(x, n)
}

// ---------------------------------------------------------------- Coq printing
func coqZ(x *big.Int) string {
	if x.Sign() < 0 {
		return "(" + x.String() + ")%Z"
	}
	return x.String() + "%Z"
}
func coqN(i int) string { return fmt.Sprintf("%d%%N", i) }
func coqZi(x int64) string { return coqZ(big.NewInt(x)) }
func coqBool(b bool) string {
	if b {
		return "true"
	}
	return "false"
}
func coqList(xs []string) string { return "[" + strings.Join(xs, "; ") + "]" }
func coqOptZ(x *big.Int) string {
	if x == nil {
		return "None"
	}
	return "(Some " + coqZ(x) + ")"
}

// ---------------------------------------------------------------- app
const chainID = utils.MainNetChainID + "-1"

type Env struct {
	App    *app.Haqq
	Ctx    sdk.Context
	ValPub []byte
}

// newEnv builds a fresh real application (MemDB, InitChain with one validator)
// and a deliver-state context at height 1.
func newEnv() *Env {
	a, valPub := app.Setup(false, nil, chainID)
	hdr := tmproto.Header{Height: 1, ChainID: chainID, Time: time.Unix(1_700_000_000, 0).UTC()}
	a.BeginBlock(abci.RequestBeginBlock{Header: hdr})
	ctx := a.BaseApp.NewContext(false, hdr)
	return &Env{App: a, Ctx: ctx, ValPub: valPub}
}

var baseEnv *Env

// forkEnv gives every case its own copy-on-write view of one freshly
// initialised application: nothing a case writes is ever flushed to the shared
// deliver state, so cases are independent; constructing the app once makes the
// run two orders of magnitude faster.
func forkEnv() *Env {
	if baseEnv == nil {
		baseEnv = newEnv()
	}
	cctx, _ := baseEnv.Ctx.CacheContext()
	return &Env{App: baseEnv.App, Ctx: cctx, ValPub: baseEnv.ValPub}
}

// runMsg executes one message the way baseapp.runMsgs does: through the
// application's message router on a cached multistore that is written back only
// when the handler succeeds.
func (e *Env) runMsg(msg sdk.Msg) (res *sdk.Result, err error) {
	if vb, ok := msg.(interface{ ValidateBasic() error }); ok {
		if err := vb.ValidateBasic(); err != nil {
			return nil, err
		}
	}
	h := e.App.MsgServiceRouter().Handler(msg)
	if h == nil {
		return nil, fmt.Errorf("no handler for %T", msg)
	}
	cctx, write := e.Ctx.CacheContext()
	defer func() {
		if r := recover(); r != nil {
			res, err = nil, fmt.Errorf("panic: %v", r)
		}
	}()
	res, err = h(cctx, msg)
	if err == nil {
		write()
	}
	return res, err
}

func addrN(i int) sdk.AccAddress {
	b := make([]byte, 20)
	b[0] = 0xA0
	b[19] = byte(i + 1)
	return sdk.AccAddress(b)
}
