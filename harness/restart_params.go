package main

// Driver "restart" (property C20), part 2: the PARAMETER SPACE.
//
// Op "params": a parameter update that reaches the module through the path a
// passed governance proposal takes:
//   - the module's own MsgUpdateParams handler, fetched from the application's
//     MsgServiceRouter and called with the gov module account as authority
//     (evm, feemarket, erc20, bank, staking, distribution, gov, slashing, auth,
//     consensus; "sendenabled" = bank MsgSetSendEnabled);
//   - the legacy ParameterChangeProposal handler of x/params for the modules
//     that still keep their parameters in a subspace (coinomics, liquidvesting,
//     ibc transfer);
//   - ucdao has no message for its parameters: keeper SetParams.
// The op names the module and the fields to override ("p": proto-JSON field
// names -> values); everything else keeps the value the node currently stores.
// The message is built by every node from its own state, passes ValidateBasic
// and the handler's validation, and is executed on a cache context that is
// written back only on success (what baseapp / the gov EndBlocker do).  A
// rejected update is simply an op that fails - on every node alike.
//
// Op "pccall": an Ethereum transaction of an EOA to a precompile address
// (implemented or not, active or not): traffic that makes the EVM parameters
// visible in transaction results.
//
// For the Coq model the driver projects the persisted parameters on
//   key 1: evm ActivePrecompiles (addresses as numbers)
//   key 2: the fee market tuple without the base fee (which every BeginBlock rewrites)
//   key 3: evm ExtraEIPs        key 4: evm EnableCreate / EnableCall / AllowUnprotectedTxs
// and records every update of evm / feemarket parameters that reached a handler.

import (
	"encoding/json"
	"fmt"
	"math/big"
	"sort"
	"strings"

	sdkmath "cosmossdk.io/math"
	sdk "github.com/cosmos/cosmos-sdk/types"
	"github.com/cosmos/cosmos-sdk/types/query"
	authtypes "github.com/cosmos/cosmos-sdk/x/auth/types"
	banktypes "github.com/cosmos/cosmos-sdk/x/bank/types"
	consensustypes "github.com/cosmos/cosmos-sdk/x/consensus/types"
	distrtypes "github.com/cosmos/cosmos-sdk/x/distribution/types"
	govtypes "github.com/cosmos/cosmos-sdk/x/gov/types"
	govv1 "github.com/cosmos/cosmos-sdk/x/gov/types/v1"
	"github.com/cosmos/cosmos-sdk/x/params"
	paramproposal "github.com/cosmos/cosmos-sdk/x/params/types/proposal"
	slashingtypes "github.com/cosmos/cosmos-sdk/x/slashing/types"
	stakingtypes "github.com/cosmos/cosmos-sdk/x/staking/types"
	ibctransfertypes "github.com/cosmos/ibc-go/v7/modules/apps/transfer/types"
	"github.com/ethereum/go-ethereum/accounts/abi"
	"github.com/ethereum/go-ethereum/common"
	"github.com/gogo/protobuf/proto"

	"github.com/haqq-network/haqq/app"
	"github.com/haqq-network/haqq/utils"
	coinomicstypes "github.com/haqq-network/haqq/x/coinomics/types"
	erc20types "github.com/haqq-network/haqq/x/erc20/types"
	evmtypes "github.com/haqq-network/haqq/x/evm/types"
	feemarkettypes "github.com/haqq-network/haqq/x/feemarket/types"
	liquidvestingtypes "github.com/haqq-network/haqq/x/liquidvesting/types"
	ucdaokeeper "github.com/haqq-network/haqq/x/ucdao/keeper"
)

var govAuthority = authtypes.NewModuleAddress(govtypes.ModuleName).String()

// legacy subspaces (x/params) reached through ParameterChangeProposal
var legacySubspace = map[string]string{
	"coinomics":     coinomicstypes.ModuleName,
	"liquidvesting": liquidvestingtypes.ModuleName,
	"transfer":      ibctransfertypes.ModuleName,
}

// paramsMsg builds the update message of module mod filled with the parameters
// the node currently stores; at: where the overridable fields sit in its JSON.
func paramsMsg(a *app.Haqq, ctx sdk.Context, mod string) (msg sdk.Msg, at string, err error) {
	switch mod {
	case "evm":
		return &evmtypes.MsgUpdateParams{Authority: govAuthority, Params: a.EvmKeeper.GetParams(ctx)}, "params", nil
	case "feemarket":
		return &feemarkettypes.MsgUpdateParams{Authority: govAuthority, Params: a.FeeMarketKeeper.GetParams(ctx)}, "params", nil
	case "erc20":
		return &erc20types.MsgUpdateParams{Authority: govAuthority, Params: a.Erc20Keeper.GetParams(ctx)}, "params", nil
	case "bank":
		return &banktypes.MsgUpdateParams{Authority: govAuthority, Params: a.BankKeeper.GetParams(ctx)}, "params", nil
	case "sendenabled":
		return &banktypes.MsgSetSendEnabled{Authority: govAuthority}, "", nil
	case "staking":
		return &stakingtypes.MsgUpdateParams{Authority: govAuthority, Params: a.StakingKeeper.GetParams(ctx)}, "params", nil
	case "distribution":
		return &distrtypes.MsgUpdateParams{Authority: govAuthority, Params: a.DistrKeeper.GetParams(ctx)}, "params", nil
	case "gov":
		return &govv1.MsgUpdateParams{Authority: govAuthority, Params: a.GovKeeper.GetParams(ctx)}, "params", nil
	case "slashing":
		return &slashingtypes.MsgUpdateParams{Authority: govAuthority, Params: a.SlashingKeeper.GetParams(ctx)}, "params", nil
	case "auth":
		return &authtypes.MsgUpdateParams{Authority: govAuthority, Params: a.AccountKeeper.GetParams(ctx)}, "params", nil
	case "consensus":
		cp, e := a.ConsensusParamsKeeper.Get(ctx)
		if e != nil || cp == nil {
			return nil, "", fmt.Errorf("no consensus params: %v", e)
		}
		return &consensustypes.MsgUpdateParams{Authority: govAuthority, Block: cp.Block, Evidence: cp.Evidence, Validator: cp.Validator}, "", nil
	}
	return nil, "", fmt.Errorf("unknown params module %q", mod)
}

// overrideJSON: msg -> proto JSON -> fields of p written over the object at `at` -> msg.
func overrideJSON(msg sdk.Msg, at string, p json.RawMessage) error {
	cdc := chainEnc.Codec
	bz, err := cdc.MarshalJSON(msg)
	if err != nil {
		return err
	}
	var doc map[string]json.RawMessage
	if err := json.Unmarshal(bz, &doc); err != nil {
		return err
	}
	var over map[string]json.RawMessage
	if len(p) > 0 {
		if err := json.Unmarshal(p, &over); err != nil {
			return fmt.Errorf("p: %v", err)
		}
	}
	target := doc
	if at != "" {
		target = map[string]json.RawMessage{}
		if raw, ok := doc[at]; ok {
			if err := json.Unmarshal(raw, &target); err != nil {
				return err
			}
		}
	}
	for k, v := range over {
		target[k] = v
	}
	if at != "" {
		raw, err := json.Marshal(target)
		if err != nil {
			return err
		}
		doc[at] = raw
	}
	bz, err = json.Marshal(doc)
	if err != nil {
		return err
	}
	pm, ok := msg.(proto.Message)
	if !ok {
		return fmt.Errorf("%T is not a proto message", msg)
	}
	pm.Reset()
	return cdc.UnmarshalJSON(bz, pm)
}

// ---------------------------------------------------------------- projection for the Coq model
type pProj struct {
	Active, Fm, Eips, Flags []string // Coq Z literals
}

func zOfBool(b bool) string {
	if b {
		return "1%Z"
	}
	return "0%Z"
}

func projEvm(p evmtypes.Params) (active, eips, flags []string) {
	active, eips = []string{}, []string{}
	for _, s := range p.ActivePrecompiles {
		active = append(active, coqZ(new(big.Int).SetBytes(common.HexToAddress(s).Bytes())))
	}
	for _, e := range p.ExtraEIPs {
		eips = append(eips, coqZi(e))
	}
	return active, eips, []string{zOfBool(p.EnableCreate), zOfBool(p.EnableCall), zOfBool(p.AllowUnprotectedTxs)}
}

func decZ(d sdk.Dec) string {
	if d.IsNil() {
		return "(-1)%Z"
	}
	return coqZ(d.BigInt())
}

// the stored tuple (no base fee) and the requested tuple (with it)
func projFm(p feemarkettypes.Params, withBase bool) []string {
	out := []string{zOfBool(p.NoBaseFee), coqZi(int64(p.BaseFeeChangeDenominator)), coqZi(int64(p.ElasticityMultiplier))}
	if withBase {
		if p.BaseFee.IsNil() {
			out = append(out, "0%Z")
		} else {
			out = append(out, coqZ(p.BaseFee.BigInt()))
		}
	}
	return append(out, coqZi(p.EnableHeight), decZ(p.MinGasPrice), decZ(p.MinGasMultiplier))
}

func projParams(a *app.Haqq, ctx sdk.Context) pProj {
	act, eips, flags := projEvm(a.EvmKeeper.GetParams(ctx))
	return pProj{Active: act, Fm: projFm(a.FeeMarketKeeper.GetParams(ctx), false), Eips: eips, Flags: flags}
}

func (p pProj) coq() string {
	return fmt.Sprintf("(%s, %s, %s, %s)", coqList(p.Active), coqList(p.Fm), coqList(p.Eips), coqList(p.Flags))
}

// the update as the model sees it
func coqPEvm(p evmtypes.Params) string {
	a, e, f := projEvm(p)
	return fmt.Sprintf("PEvm %s %s %s", coqList(a), coqList(e), coqList(f))
}
func coqPFm(p feemarkettypes.Params) string { return "PFm " + coqList(projFm(p, true)) }

// ---------------------------------------------------------------- the ops
func (h *hist) applyParams(op hOp) error {
	c := h.c
	ctx := c.Ctx()
	if sub, ok := legacySubspace[op.Mod]; ok {
		var over map[string]json.RawMessage
		if err := json.Unmarshal(op.P, &over); err != nil {
			return fmt.Errorf("p: %v", err)
		}
		keys := []string{}
		for k := range over {
			keys = append(keys, k)
		}
		sort.Strings(keys)
		changes := []paramproposal.ParamChange{}
		for _, k := range keys {
			changes = append(changes, paramproposal.NewParamChange(sub, k, string(over[k])))
		}
		prop := paramproposal.NewParameterChangeProposal("hv", "hv", changes)
		if err := prop.ValidateBasic(); err != nil {
			return err
		}
		handler := params.NewParamChangeProposalHandler(c.App.ParamsKeeper) // what app.go mounts on the gov router
		return c.Direct(func(ctx sdk.Context) error { return handler(ctx, prop) })
	}
	if op.Mod == "ucdao" {
		return c.Direct(func(ctx sdk.Context) error {
			bk, ok := c.App.DaoKeeper.(ucdaokeeper.BaseKeeper)
			if !ok {
				return fmt.Errorf("DaoKeeper is not a BaseKeeper")
			}
			p := bk.GetParams(ctx)
			var over struct {
				EnableDao *bool `json:"enable_dao"`
			}
			if err := json.Unmarshal(op.P, &over); err != nil {
				return err
			}
			if over.EnableDao != nil {
				p.EnableDao = *over.EnableDao
			}
			if err := p.ValidateBasic(); err != nil {
				return err
			}
			return bk.SetParams(ctx, p)
		})
	}
	msg, at, err := paramsMsg(c.App, ctx, op.Mod)
	if err != nil {
		return err
	}
	if err := overrideJSON(msg, at, op.P); err != nil {
		return fmt.Errorf("cannot build the message: %v", err)
	}
	// the update reaches ValidateBasic / the handler: the model sees it
	switch m := msg.(type) {
	case *evmtypes.MsgUpdateParams:
		h.pw = append(h.pw, coqPEvm(m.Params))
	case *feemarkettypes.MsgUpdateParams:
		h.pw = append(h.pw, coqPFm(m.Params))
	}
	return c.RunMsg(msg)
}

var pcABI = func() abi.ABI {
	a, err := abi.JSON(strings.NewReader(`[
	 {"type":"function","name":"hexToBech32","stateMutability":"nonpayable","inputs":[{"name":"addr","type":"address"},{"name":"prefix","type":"string"}],"outputs":[{"name":"bech32Address","type":"string"}]},
	 {"type":"function","name":"balances","stateMutability":"view","inputs":[{"name":"account","type":"address"}],"outputs":[]},
	 {"type":"function","name":"delegationTotalRewards","stateMutability":"view","inputs":[{"name":"delegatorAddress","type":"address"}],"outputs":[]},
	 {"type":"function","name":"withdrawDelegatorRewards","stateMutability":"nonpayable","inputs":[{"name":"delegatorAddress","type":"address"},{"name":"validatorAddress","type":"string"}],"outputs":[]}
	]`))
	if err != nil {
		panic(err)
	}
	return a
}()

// pcTargets: precompile addresses EOAs call (K selects): implemented ones, the
// unimplemented 0x..0803 / 0x..0900, and an address that is no precompile at all.
var pcTargets = []string{
	"0x0000000000000000000000000000000000000400", // bech32
	"0x0000000000000000000000000000000000000804", // bank
	"0x0000000000000000000000000000000000000801", // distribution (query)
	"0x0000000000000000000000000000000000000801", // distribution (tx)
	"0x0000000000000000000000000000000000000100", // p256
	"0x0000000000000000000000000000000000000803", // vesting: not in this binary
	"0x0000000000000000000000000000000000000900", // outpost: not in this binary
	"0x0000000000000000000000000000000000000004", // identity (geth native)
}

func (h *hist) applyPcCall(op hOp, a int) error {
	c := h.c
	ctx := c.Ctx()
	k := int(op.K % uint64(len(pcTargets)))
	to := common.HexToAddress(pcTargets[k])
	var data []byte
	var err error
	switch k {
	case 0:
		data, err = pcABI.Pack("hexToBech32", chainAcct(a).Eth, "haqq")
	case 1:
		data, err = pcABI.Pack("balances", chainAcct(a).Eth)
	case 2:
		data, err = pcABI.Pack("delegationTotalRewards", chainAcct(a).Eth)
	case 3:
		vals := c.App.StakingKeeper.GetAllValidators(ctx)
		data, err = pcABI.Pack("withdrawDelegatorRewards", chainAcct(a).Eth, vals[0].OperatorAddress)
	case 4:
		data = make([]byte, 160)
		data[31], data[63], data[95] = 1, 2, 3
	default:
		data = []byte{0xde, 0xad, 0xbe, 0xef}
	}
	if err != nil {
		return err
	}
	bz, _, err := c.EthTx(ctx, a, &to, big.NewInt(0), data, 400_000, 0)
	if err != nil {
		return err
	}
	res := c.Deliver(bz)
	h.gasUsed += res.GasUsed
	if res.Code != 0 || ethFailed(res) {
		return fmt.Errorf("call failed: code %d %s", res.Code, trunc(res.Log, 160))
	}
	return nil
}

// applyRestartOp: the ops of this file, then the shared ones; legacy direct
// parameter writes ("evmparams", "fmparams") are reported to the model with the value they stored.
func (h *hist) applyRestartOp(op hOp) error {
	switch op.Op {
	case "params":
		return h.applyParams(op)
	case "pccall":
		return h.applyPcCall(op, ((op.A%chainNAccts)+chainNAccts)%chainNAccts)
	case "gasburst":
		return h.applyGasBurst(op, ((op.A%chainNAccts)+chainNAccts)%chainNAccts)
	}
	err := h.apply(op)
	if err == nil {
		switch op.Op {
		case "evmparams":
			h.pw = append(h.pw, coqPEvm(h.c.App.EvmKeeper.GetParams(h.c.Ctx())))
		case "fmparams":
			h.pw = append(h.pw, coqPFm(h.c.App.FeeMarketKeeper.GetParams(h.c.Ctx())))
		}
	}
	return err
}

// ---------------------------------------------------------------- the params queries of all modules
func paramsQueries() []qReq {
	qs := []qReq{
		{"staking/params", "/cosmos.staking.v1beta1.Query/Params", &stakingtypes.QueryParamsRequest{}},
		{"staking/pool", "/cosmos.staking.v1beta1.Query/Pool", &stakingtypes.QueryPoolRequest{}},
		{"staking/validators", "/cosmos.staking.v1beta1.Query/Validators", &stakingtypes.QueryValidatorsRequest{Pagination: &query.PageRequest{Limit: 100, CountTotal: true}}},
		{"distribution/params", "/cosmos.distribution.v1beta1.Query/Params", &distrtypes.QueryParamsRequest{}},
		{"distribution/community_pool", "/cosmos.distribution.v1beta1.Query/CommunityPool", &distrtypes.QueryCommunityPoolRequest{}},
		{"slashing/params", "/cosmos.slashing.v1beta1.Query/Params", &slashingtypes.QueryParamsRequest{}},
		{"slashing/signing_infos", "/cosmos.slashing.v1beta1.Query/SigningInfos", &slashingtypes.QuerySigningInfosRequest{Pagination: &query.PageRequest{Limit: 100, CountTotal: true}}},
		{"auth/params", "/cosmos.auth.v1beta1.Query/Params", &authtypes.QueryParamsRequest{}},
		{"consensus/params", "/cosmos.consensus.v1.Query/Params", &consensustypes.QueryParamsRequest{}},
		{"bank/send_enabled", "/cosmos.bank.v1beta1.Query/SendEnabled", &banktypes.QuerySendEnabledRequest{Pagination: &query.PageRequest{Limit: 100, CountTotal: true}}},
		{"transfer/params", "/ibc.applications.transfer.v1.Query/Params", &ibctransfertypes.QueryParamsRequest{}},
	}
	for _, t := range []string{govv1.ParamDeposit, govv1.ParamVoting, govv1.ParamTallying} {
		qs = append(qs, qReq{"gov/params/" + t, "/cosmos.gov.v1.Query/Params", &govv1.QueryParamsRequest{ParamsType: t}})
	}
	// modules without a Params query: the raw subspace entries
	for _, sk := range [][2]string{
		{liquidvestingtypes.ModuleName, string(liquidvestingtypes.ParamStoreKeyMinimumLiquidationAmount)},
		{liquidvestingtypes.ModuleName, string(liquidvestingtypes.ParamStoreKeyEnableLiquidVesting)},
		{coinomicstypes.ModuleName, string(coinomicstypes.ParamStoreKeyEnableCoinomics)},
		{coinomicstypes.ModuleName, string(coinomicstypes.ParamStoreKeyRewardCoefficient)},
		{ibctransfertypes.ModuleName, string(ibctransfertypes.KeySendEnabled)},
	} {
		qs = append(qs, qReq{"params/" + sk[0] + "/" + sk[1], "/cosmos.params.v1beta1.Query/Params", &paramproposal.QueryParamsRequest{Subspace: sk[0], Key: sk[1]}})
	}
	return qs
}

// ---------------------------------------------------------------- generator
func rawJSON(v interface{}) json.RawMessage {
	bz, err := json.Marshal(v)
	if err != nil {
		panic(err)
	}
	return bz
}

func hexAddrN(n int64) string { return fmt.Sprintf("0x%040x", n) }

// well-formed precompile addresses: the implemented ones, addresses upstream
// reserves for precompiles this binary does not instantiate, geth natives, arbitrary ones
var pcImplemented = []int64{0x100, 0x400, 0x800, 0x801, 0x802, 0x804}
var pcUnimplemented = []int64{0x803, 0x900, 0x901, 0x805, 0x4, 0x1234}

// genActiveList: a random list that passes ValidatePrecompiles (sorted, unique,
// hex) in 9 of 10 cases; shapes: defaults minus some, defaults plus unimplemented, few, none.
func genActiveList(r *Rng) []string {
	set := map[int64]bool{}
	switch r.Intn(6) {
	case 0: // the defaults
		for _, a := range pcImplemented {
			set[a] = true
		}
	case 1, 2: // some defaults removed
		for _, a := range pcImplemented {
			if r.Chance(65) {
				set[a] = true
			}
		}
	case 3, 4: // defaults (or most) plus addresses without implementation
		for _, a := range pcImplemented {
			if r.Chance(85) {
				set[a] = true
			}
		}
		set[pcUnimplemented[r.Intn(len(pcUnimplemented))]] = true
		if r.Chance(30) {
			set[pcUnimplemented[r.Intn(len(pcUnimplemented))]] = true
		}
	default: // only an unimplemented one, or nothing
		if r.Bool() {
			set[pcUnimplemented[r.Intn(2)]] = true
		}
	}
	ns := []int64{}
	for a := range set {
		ns = append(ns, a)
	}
	sort.Slice(ns, func(i, j int) bool { return ns[i] < ns[j] })
	out := []string{}
	for _, a := range ns {
		out = append(out, hexAddrN(a))
	}
	if len(out) >= 2 && r.Chance(10) {
		if r.Bool() {
			out[0], out[1] = out[1], out[0] // unsorted: rejected
		} else {
			out[1] = out[0] // duplicate: rejected
		}
	}
	return out
}

var validEIPs = []int64{1344, 1884, 2200, 2929, 3198, 3529, 3855}

func decStr(n int64, prec int64) string { return sdkmath.LegacyNewDecWithPrec(n, prec).String() }

// genParamsOp: one random parameter update (values from the valid domain of
// the module's own validation, edge values included; now and then an invalid one).
func genParamsOp(r *Rng, height int) hOp {
	p := map[string]interface{}{}
	mod := ""
	k := r.Intn(100)
	switch {
	case k < 34:
		mod = "evm"
		n := 1 + r.Intn(2)
		for i := 0; i < n; i++ {
			switch r.Intn(8) {
			case 0, 1, 2, 3:
				p["active_precompiles"] = genActiveList(r)
			case 4:
				p["enable_create"] = r.Chance(70)
			case 5:
				p["enable_call"] = r.Chance(70)
			case 6:
				p["allow_unprotected_txs"] = r.Bool()
			default:
				eips := []string{} // proto JSON: int64 as strings
				for _, e := range validEIPs {
					if r.Chance(30) {
						eips = append(eips, fmt.Sprint(e))
					}
				}
				if r.Chance(8) {
					eips = append(eips, "1559") // not activateable: rejected
				}
				p["extra_eips"] = eips
			}
		}
	case k < 58:
		mod = "feemarket"
		n := 1 + r.Intn(3)
		for i := 0; i < n; i++ {
			switch r.Intn(7) {
			case 0:
				p["no_base_fee"] = r.Chance(35)
			case 1:
				p["base_fee"] = []string{"0", "1", "7", "1000000000", "25000000000", "1000000000000"}[r.Intn(6)]
			case 2:
				p["min_gas_price"] = []string{"0", decStr(1, 18), decStr(5, 1), "1", "1000000000", "20000000000"}[r.Intn(6)]
				if r.Chance(6) {
					p["min_gas_price"] = "-1" // rejected
				}
			case 3:
				p["min_gas_multiplier"] = []string{"0", "1", decStr(5, 1), decStr(1, 2), decStr(99, 2)}[r.Intn(5)]
				if r.Chance(6) {
					p["min_gas_multiplier"] = decStr(11, 1) // > 1: rejected
				}
			case 4:
				// 0 passes Params.Validate and makes CalculateBaseFee divide by zero in every later
				// BeginBlock (on every node alike): a history that ends there shows nothing about restarts
				p["elasticity_multiplier"] = []int{1, 2, 3, 4, 10, 1000000}[r.Intn(6)]
			case 5:
				p["base_fee_change_denominator"] = []int{1, 2, 8, 50, 4000000000}[r.Intn(5)]
				if r.Chance(6) {
					p["base_fee_change_denominator"] = 0 // rejected
				}
			default:
				p["enable_height"] = fmt.Sprint([]int{0, 1, height, height + 1, height + 2, height + 5}[r.Intn(6)])
			}
		}
	case k < 62:
		mod = "erc20"
		if r.Bool() {
			p["enable_erc20"] = r.Bool()
		} else {
			p["enable_evm_hook"] = r.Bool()
		}
	case k < 66:
		mod = "coinomics"
		if r.Bool() {
			p[string(coinomicstypes.ParamStoreKeyEnableCoinomics)] = r.Bool()
		} else {
			p[string(coinomicstypes.ParamStoreKeyRewardCoefficient)] = decStr(int64(r.Intn(2000)), 2)
		}
	case k < 69:
		mod = "liquidvesting"
		if r.Bool() {
			p[string(liquidvestingtypes.ParamStoreKeyEnableLiquidVesting)] = r.Bool()
		} else {
			p[string(liquidvestingtypes.ParamStoreKeyMinimumLiquidationAmount)] = islm(int64(r.Intn(2000))).String() // 0: rejected
		}
	case k < 71:
		mod = "ucdao"
		p["enable_dao"] = r.Bool()
	case k < 78:
		mod = "staking"
		switch r.Intn(4) {
		case 0:
			p["historical_entries"] = []int{0, 1, 2, 100, 10000}[r.Intn(5)]
		case 1:
			p["max_entries"] = []int{1, 2, 7, 100}[r.Intn(4)]
		case 2:
			p["unbonding_time"] = []string{"1s", "10s", "86400s", "1814400s"}[r.Intn(4)]
		default:
			p["max_validators"] = []int{1, 2, 100}[r.Intn(3)]
		}
	case k < 81:
		mod = "distribution"
		if r.Bool() {
			p["community_tax"] = []string{"0", decStr(2, 2), decStr(5, 1), "1"}[r.Intn(4)]
		} else {
			p["withdraw_addr_enabled"] = r.Bool()
		}
	case k < 84:
		mod = "gov"
		switch r.Intn(3) {
		case 0:
			p["voting_period"] = []string{"1s", "60s", "172800s"}[r.Intn(3)]
		case 1:
			p["quorum"] = []string{decStr(1, 2), decStr(334, 3), "1"}[r.Intn(3)]
		default:
			p["min_deposit"] = []map[string]string{{"denom": utils.BaseDenom, "amount": fmt.Sprint(1 + r.Intn(1000000))}}
		}
	case k < 87:
		mod = "slashing"
		switch r.Intn(3) {
		case 0:
			p["signed_blocks_window"] = fmt.Sprint([]int{1, 2, 10, 100}[r.Intn(4)])
		case 1:
			p["min_signed_per_window"] = []string{"0", decStr(5, 1), "1"}[r.Intn(3)]
		default:
			p["downtime_jail_duration"] = []string{"1s", "600s"}[r.Intn(2)]
		}
	case k < 91:
		if r.Bool() {
			mod = "bank"
			p["default_send_enabled"] = r.Chance(75)
		} else {
			mod = "sendenabled"
			if r.Chance(60) {
				p["send_enabled"] = []map[string]interface{}{{"denom": utils.BaseDenom, "enabled": r.Chance(60)}}
			} else {
				p["use_default_for"] = []string{utils.BaseDenom}
			}
		}
	case k < 94:
		mod = "auth"
		switch r.Intn(3) {
		case 0:
			p["tx_size_cost_per_byte"] = fmt.Sprint([]int{1, 10, 20}[r.Intn(3)])
		case 1:
			p["max_memo_characters"] = fmt.Sprint([]int{1, 256, 1000}[r.Intn(3)])
		default:
			p["sig_verify_cost_secp256k1"] = fmt.Sprint([]int{1, 1000, 5000}[r.Intn(3)])
		}
	case k < 97:
		mod = "consensus"
		p["block"] = map[string]string{"max_bytes": []string{"200000", "2000000", "22020096"}[r.Intn(3)],
			"max_gas": []string{"-1", "0", "3000000", "40000000", "100000000"}[r.Intn(5)]}
	default:
		mod = "transfer"
		p[string(ibctransfertypes.KeySendEnabled)] = r.Bool()
	}
	return hOp{Op: "params", Mod: mod, P: rawJSON(p)}
}

// genTraffic: ordinary transactions that run through the code the parameters gate.
func genTraffic(r *Rng, nContracts int) hOp {
	a, b := r.Intn(chainNAccts), r.Intn(chainNAccts)
	switch k := r.Intn(100); {
	case k < 25:
		return hOp{Op: "ethsend", A: a, B: b, Amt: fmt.Sprint(1 + r.Intn(1000000)), Kind: r.Intn(2)}
	case k < 45:
		return hOp{Op: "pccall", A: a, K: uint64(r.Intn(len(pcTargets)))}
	case k < 55:
		return hOp{Op: "stakingpc", A: a, Amt: islm(int64(1 + r.Intn(20))).String()}
	case k < 70:
		return hOp{Op: "banksend", A: a, B: b, Amt: fmt.Sprint(1 + r.Intn(1000000)), Kind: r.Intn(2)}
	case k < 80 || nContracts == 0:
		return hOp{Op: "deploy", A: a}
	default:
		return hOp{Op: "sstore", A: a, B: r.Intn(nContracts), K: uint64(r.Intn(6)), V: 1 + r.U64()%1000, Kind: r.Intn(3)}
	}
}

func countDeploys(in hInput, upto int) int {
	n := 0
	for i := 0; i < upto && i < len(in.Blocks); i++ {
		for _, o := range in.Blocks[i].Ops {
			if o.Op == "deploy" {
				n++
			}
		}
	}
	return n
}

// addParamSpace decorates a history: parameter updates (1-2 blocks get one or
// several), and after each of them - in the same block, the next block and
// some blocks later - traffic that the changed parameters gate.
func addParamSpace(r *Rng, in hInput) hInput {
	nb := len(in.Blocks)
	if nb == 0 {
		return in
	}
	nUpd := 1 + r.Intn(3)
	for u := 0; u < nUpd; u++ {
		b := r.Intn(nb)
		if u == 0 && nb > 2 {
			b = r.Intn(nb - 2) // room for blocks after the change
		}
		blk := &in.Blocks[b]
		op := genParamsOp(r, b+1)
		if r.Chance(35) { // before the block's other ops: they already run under the new parameters
			blk.Ops = append([]hOp{op}, blk.Ops...)
		} else {
			blk.Ops = append(blk.Ops, op)
		}
		if r.Chance(25) {
			blk.Ops = append(blk.Ops, genParamsOp(r, b+1))
		}
		for d := 0; d < 3 && b+d < nb; d++ {
			if d == 0 && !r.Chance(50) {
				continue
			}
			n := 1 + r.Intn(2)
			for i := 0; i < n; i++ {
				in.Blocks[b+d].Ops = append(in.Blocks[b+d].Ops, genTraffic(r, countDeploys(in, b+d+1)))
			}
		}
	}
	return in
}
